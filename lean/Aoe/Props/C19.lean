import Aoe.Model.Render
import Aoe.Generated.Presentation
/-!
# C19 – inspecting a scenario never fails

Model: `Aoe.Render` (M12) – the lookup/fallback skeleton of `str()`, `get_content_as_string`,
`get_summary_as_string` of effects, conditions, triggers and the trigger manager.  Modelled: which `dict[k]`,
`Enum(v)`, `obj.attr`, `list[i]` can raise, which `try/except` catches which exception class, the display filter,
unknown types, dangling trigger / variable / unit references, detached objects, all four value kinds
(int, list, str, None).  Not modelled: the text (formatting of found values, the dataset enums' own
`attribute_presentation()`); dataset membership is the abstract parameter `Env.member`, every theorem holds for all
of its values.

* `render_total_effect / _condition / _trigger / _manager_content / _manager_summary`: for the model with the four
  proposed repairs (`Fix.fixed`) every render returns, for every state whose values fit their representation
  (`WellTyped`; an int where an id is expected – dangling or not –, anything elsewhere) and whose order arrays are in
  range.  `illtyped_counter` shows the hypothesis is needed.
* `*_counter`: the pinned code (`Fix.asIs`) raises on four concrete inputs (defects F11a–F11d).
* `asis_total_obj`: on the pinned code a single effect/condition renders whenever none of the four situations is
  present.
* `listing_once`, `listing_content`: under the manager invariant (display order is a permutation of the indices) the
  summary – and the content whenever it renders – lists `(name, index, display)` of every trigger exactly once, in
  display order.
* table obligations for every version's regenerated table (`tables_ok`, `reps_handled`, `default_rows`).
-/
namespace Aoe.Props.C19
open Aoe.Render

/-! ### hypotheses -/

/-- the value fits what the representation's lookup accepts without a `TypeError` -/
def valOk : Rep → Val → Bool
  | .combined, .int _ => true
  | .combined, _ => false
  | .otherInfo, .int _ => true
  | .otherInfo, _ => false
  | .triggerId, .int _ => true
  | .triggerId, _ => false
  | .variableId, .int _ => true
  | .variableId, .none => true
  | .variableId, _ => false
  | .playerColorId, .int _ => true
  | .playerColorId, _ => false
  | _, _ => true

/-- every stored value fits the representation the table assigns to its attribute -/
def WellTyped (fx : Fix) (T : Table) (o : Obj) : Prop :=
  ∀ a v rid, assoc o.attrs a = some v → getPresentation fx T o.type a = .ok (some rid) →
    valOk (classify T rid) v = true

/-- the object carries every attribute of its class (true of every `Effect` / `Condition` instance) -/
def Complete (T : Table) (o : Obj) : Prop := ∀ a, a ∈ T.classAttrs → (assoc o.attrs a).isSome = true

/-- all entries of an order array are valid Python indices into a list of length `n` -/
def OrderOk (n : Nat) (order : List Int) : Prop := ∀ i ∈ order, -(n : Int) ≤ i ∧ i < (n : Int)

def ObjOk (T : Table) (o : Obj) : Prop := Complete T o ∧ WellTyped Fix.fixed T o

def TrigOk (Te Tc : Table) (t : Trig) : Prop :=
  (∀ o ∈ t.conds, ObjOk Tc o) ∧ (∀ o ∈ t.effs, ObjOk Te o) ∧
  OrderOk t.conds.length t.condOrder ∧ OrderOk t.effs.length t.effOrder

/-- the trigger-manager invariant: the display order is a permutation of the trigger indices -/
def Inv (m : Mgr) : Prop := m.order.Perm ((List.range m.trigs.length).map Int.ofNat)

/-- the trigger reference points at an existing trigger of a registered scenario (Python indices −n … n−1) -/
def TrigValid (env : Env) (v : Val) : Prop :=
  env.live = true ∧ ∃ i, v = .int i ∧ -(env.trigNames.length : Int) ≤ i ∧ i < (env.trigNames.length : Int)

/-- each of the four recorded failures is either repaired in the model (`fx`) or absent from the state -/
structure Safe (fx : Fix) (T : Table) (env : Env) (o : Obj) (withDef : Bool) : Prop where
  trig : fx.trig = true ∨ ∀ a v rid, assoc o.attrs a = some v → getPresentation fx T o.type a = .ok (some rid) →
            classify T rid = .triggerId → shouldDisplay T o a v = false ∨ TrigValid env v
  condName : fx.condName = true ∨ withDef = false ∨ T.isEffect = true ∨ T.names.contains o.type = true
  presDefault : fx.presDefault = true ∨ o.type ≠ -1
  aaSkip : fx.aaSkip = true ∨ o.aaSrc ≠ .quantity

/-! ### helper lemmas (private) -/

private theorem assoc_mem {κ β : Type} [BEq κ] [LawfulBEq κ] {l : List (κ × β)} {k : κ} {v : β}
    (h : assoc l k = some v) : (k, v) ∈ l := by
  induction l with
  | nil => simp [assoc] at h
  | cons e rest ih =>
    obtain ⟨k', v'⟩ := e
    simp only [assoc] at h
    by_cases hk : (k' == k) = true
    · simp only [hk, if_true, Option.some.injEq] at h
      have : k' = k := by simpa using hk
      subst this; subst h; exact List.mem_cons_self
    · simp only [hk] at h
      exact List.mem_cons_of_mem _ (ih h)

private theorem allB_mem {α : Type} {l : List α} {p : α → Bool} (h : allB l p = true) {x : α} (hx : x ∈ l) :
    p x = true := by
  unfold allB at h
  exact (List.all_eq_true.mp h) x hx

private theorem pyIndex_ok {α : Type} (l : List α) (i : Int) (h0 : -(l.length : Int) ≤ i) (h1 : i < (l.length : Int)) :
    ∃ x, pyIndex l i = .ok x ∧ x ∈ l := by
  unfold pyIndex
  simp only
  by_cases hneg : i < 0
  · simp only [hneg, if_true]
    have h2 : ¬ ((l.length : Int) + i < 0) := by omega
    simp only [h2, if_false]
    have h3 : ((l.length : Int) + i).toNat < l.length := by omega
    rw [List.getElem?_eq_getElem h3]
    exact ⟨_, rfl, List.getElem_mem h3⟩
  · simp only [hneg, if_false]
    have h3 : i.toNat < l.length := by omega
    rw [List.getElem?_eq_getElem h3]
    exact ⟨_, rfl, List.getElem_mem h3⟩

private theorem pyIndex_nonneg {α : Type} (l : List α) (i : Int) (h0 : 0 ≤ i) (h1 : i < (l.length : Int)) :
    ∃ x, pyIndex l i = .ok x ∧ l[i.toNat]? = some x := by
  unfold pyIndex
  simp only
  have hneg : ¬ i < 0 := by omega
  simp only [hneg, if_false]
  have h3 : i.toNat < l.length := by omega
  rw [List.getElem?_eq_getElem h3]
  exact ⟨_, rfl, rfl⟩

private theorem catchKV_ok_of (x : Except Err Piece)
    (h : ∀ e, x = .error e → e = .keyError ∨ e = .valueError) : ∃ p, catchKV x = .ok p := by
  cases x with
  | ok p => exact ⟨p, rfl⟩
  | error e =>
    rcases h e rfl with h | h <;> subst h <;> exact ⟨_, rfl⟩

/-- with the repair F11a a trigger reference renders for every integer; without it for the valid ones -/
private theorem formatTrigger_ok (fx : Fix) (env : Env) (i : Int) (h : fx.trig = true ∨ TrigValid env (.int i)) :
    ∃ p, formatTrigger fx env (.int i) = .ok p := by
  unfold formatTrigger getTrigger
  cases hft : fx.trig with
  | true =>
    by_cases hl : env.live = true
    · simp only [hl, Bool.not_true, Bool.false_eq_true, if_false, if_true]
      by_cases hr : 0 ≤ i ∧ i < (env.trigNames.length : Int)
      · obtain ⟨x, hx, _⟩ := pyIndex_nonneg env.trigNames i hr.1 hr.2
        simp only [hr, and_self, if_true, hx, Except.map]
        exact ⟨_, rfl⟩
      · simp only [hr, if_false]
        exact ⟨_, rfl⟩
    · have : env.live = false := by simpa using hl
      simp only [this, Bool.not_false, if_true]
      exact ⟨_, rfl⟩
  | false =>
    rcases h with h | h
    · rw [hft] at h; cases h
    · obtain ⟨hl, j, hj, h0, h1⟩ := h
      cases hj
      obtain ⟨x, hx, _⟩ := pyIndex_ok env.trigNames i h0 h1
      simp only [hl, Bool.not_true, Bool.false_eq_true, if_false, h1, if_true, hx, Except.map]
      exact ⟨_, rfl⟩

private theorem formatVariable_ok (env : Env) (v : Val) (h : valOk .variableId v = true) :
    ∃ p, catchKV (formatVariable env v) = .ok p := by
  apply catchKV_ok_of
  intro e he
  unfold formatVariable at he
  cases v with
  | int i =>
    simp only at he
    split at he
    · cases he
    · split at he
      · cases he
      · split at he <;> cases he
  | none =>
    simp only at he
    split at he
    · cases he
    · cases he; exact Or.inr rfl
  | list l => simp [valOk] at h
  | str s => simp [valOk] at h

/-- the body of the `try` only lets `KeyError` / `ValueError` escape when the value fits -/
private theorem transform_ok (fx : Fix) (env : Env) (rid : Nat) (r : Rep) (v : Val) (h : valOk r v = true)
    (ht : r = .triggerId → fx.trig = true ∨ TrigValid env v) :
    ∃ p, catchKV (transformCore fx env rid r v) = .ok p := by
  cases r with
  | raw => exact ⟨_, rfl⟩
  | dataset =>
    apply catchKV_ok_of; intro e he
    cases v <;> simp only [transformCore] at he
    · split at he
      · cases he
      · cases he; exact Or.inr rfl
    all_goals (cases he; exact Or.inr rfl)
  | combined =>
    cases v with
    | int i =>
      simp only [transformCore]
      split <;> exact ⟨_, rfl⟩
    | _ => simp [valOk] at h
  | otherInfo =>
    cases v with
    | int i =>
      apply catchKV_ok_of; intro e he
      simp only [transformCore] at he
      split at he
      · cases he; exact Or.inr rfl
      · split at he
        · cases he
        · cases he; exact Or.inl rfl
    | _ => simp [valOk] at h
  | triggerId =>
    cases v with
    | int i =>
      obtain ⟨p, hp⟩ := formatTrigger_ok fx env i (ht rfl)
      exact ⟨p, by simp only [transformCore, hp, catchKV]⟩
    | _ => simp [valOk] at h
  | unitRef => exact ⟨_, rfl⟩
  | variableId => exact formatVariable_ok env v h
  | bool => exact ⟨_, rfl⟩
  | playerId =>
    apply catchKV_ok_of; intro e he
    cases v <;> simp only [transformCore] at he
    · split at he
      · cases he
      · cases he; exact Or.inr rfl
    all_goals (cases he; exact Or.inr rfl)
  | playerColorId =>
    cases v with
    | int i =>
      apply catchKV_ok_of; intro e he
      simp only [transformCore] at he
      split at he
      · cases he
      · cases he; exact Or.inr rfl
    | _ => simp [valOk] at h
  | str => exact ⟨_, rfl⟩
  | unhandled => exact ⟨_, rfl⟩

private theorem tableOK_parts {T : Table} (h : tableOK T = true) :
    attrsExist T = true ∧ presCovered T = true ∧ hasDefaults T = true ∧ repsHandled T = true ∧ namesMatch T = true := by
  unfold tableOK at h
  simp only [Bool.and_eq_true] at h
  obtain ⟨⟨⟨⟨a, b⟩, c⟩, d⟩, e⟩ := h
  exact ⟨a, b, c, d, e⟩

/-- every attribute the loop visits exists on the class -/
private theorem attrList_class {T : Table} (h : attrsExist T = true) (ty : Int) {a : Nat} (ha : a ∈ attrList T ty) :
    a ∈ T.classAttrs := by
  unfold attrsExist at h
  simp only [Bool.and_eq_true] at h
  unfold attrList at ha
  cases hl : assoc T.attrs ty with
  | none =>
    rw [hl] at ha
    have := allB_mem h.2 ha
    simpa using this
  | some l =>
    rw [hl] at ha
    have h1 := allB_mem h.1 (assoc_mem hl)
    have := allB_mem h1 ha
    simpa using this

/-- the presentation lookup cannot fail on a well-formed table, except (pinned code) for the type −1 -/
private theorem getPresentation_ok (fx : Fix) {T : Table} (h : tableOK T = true) (ty : Int) {a : Nat}
    (ha : a ∈ attrList T ty) (hpd : fx.presDefault = true ∨ ty ≠ -1) :
    ∃ r, getPresentation fx T ty a = .ok r := by
  obtain ⟨_, hp, _, _, hn⟩ := tableOK_parts h
  unfold getPresentation
  by_cases hty : ty = -1
  · subst hty
    rcases hpd with hpd | hpd
    · exact ⟨Option.none, by simp [hpd]⟩
    · exact absurd rfl hpd
  · have hne : (ty == -1) = false := by simpa using hty
    simp only [hne, Bool.and_false, Bool.false_eq_true, if_false]
    cases hm : assoc T.pres ty with
    | none => exact ⟨_, rfl⟩
    | some m =>
      -- the type has a presentation row, hence (namesMatch) an attribute list, hence (presCovered) coverage
      unfold namesMatch at hn
      simp only [Bool.and_eq_true] at hn
      have h3 := allB_mem hn.2 (assoc_mem hm)
      simp only [hne, Bool.false_or] at h3
      cases hl : assoc T.attrs ty with
      | none => rw [hl] at h3; simp at h3
      | some l =>
        have hal : a ∈ l := by unfold attrList at ha; rw [hl] at ha; exact ha
        unfold presCovered at hp
        have h4 := allB_mem (allB_mem hp (assoc_mem hl)) hal
        simp only at h4
        unfold getPresentation at h4
        simp only [Fix.asIs, Bool.false_and, Bool.false_eq_true, if_false, hm] at h4
        simp only
        split
        · exact ⟨_, rfl⟩
        · rename_i hq
          rw [hq] at h4
          simp only at h4
          split
          · rename_i hd; rw [hd] at h4; simp at h4
          · rename_i d hd
            rw [hd] at h4
            simp only at h4
            split
            · exact ⟨_, rfl⟩
            · rename_i hx; rw [hx] at h4; simp at h4

private theorem transformAttr_ok (fx : Fix) {T : Table} (env : Env) (o : Obj) (a : Nat) (v : Val)
    (hv : assoc o.attrs a = some v) (hw : WellTyped fx T o)
    (hp : ∃ r, getPresentation fx T o.type a = .ok r)
    (ht : fx.trig = true ∨ ∀ rid, getPresentation fx T o.type a = .ok (some rid) → classify T rid = .triggerId →
            TrigValid env v) :
    ∃ p, transformAttr fx T env o.type a v = .ok p := by
  obtain ⟨r, hr⟩ := hp
  unfold transformAttr
  rw [hr]
  cases r with
  | none => exact ⟨_, rfl⟩
  | some rid =>
    simp only
    have hok := hw a v rid hv hr
    split
    · exact ⟨_, rfl⟩
    · refine transform_ok fx env rid _ v hok (fun hc => ?_)
      rcases ht with ht | ht
      · exact Or.inl ht
      · exact Or.inr (ht rid hr hc)

/-- the attribute loop -/
private theorem renderAttrs_ok (fx : Fix) {T : Table} (env : Env) (o : Obj) (hc : Complete T o)
    (hw : WellTyped fx T o)
    (htr : fx.trig = true ∨ ∀ a v rid, assoc o.attrs a = some v → getPresentation fx T o.type a = .ok (some rid) →
            classify T rid = .triggerId → shouldDisplay T o a v = false ∨ TrigValid env v)
    (haa : fx.aaSkip = true ∨ o.aaSrc ≠ .quantity)
    (l : List Nat)
    (hl : ∀ a ∈ l, a ∈ T.classAttrs ∧ ∃ r, getPresentation fx T o.type a = .ok r) :
    ∃ out, renderAttrs fx T env o l = .ok out := by
  induction l with
  | nil => exact ⟨[], rfl⟩
  | cons a rest ih =>
    obtain ⟨ps, hps⟩ := ih (fun b hb => hl b (List.mem_cons_of_mem _ hb))
    obtain ⟨hca, hpa⟩ := hl a List.mem_cons_self
    unfold renderAttrs
    split
    · exact ⟨ps, hps⟩
    · rename_i hskip
      have hsome := hc a hca
      cases hv : assoc o.attrs a with
      | none => rw [hv] at hsome; simp at hsome
      | some v =>
        -- the `quantity` property is only evaluated when the skip did not apply
        have hget : getattr T env o a = .ok v := by
          unfold getattr
          rw [hv]
          simp only
          split
          · rename_i hq
            exfalso
            simp only [Bool.and_eq_true, beq_iff_eq] at hq
            rcases haa with haa | haa
            · apply hskip
              simp only [haa, Bool.true_and, Bool.and_eq_true, beq_iff_eq, Obj.aaFlag, bne_iff_ne, ne_eq]
              refine ⟨⟨hq.1.1, ?_⟩, hq.1.2⟩
              rw [hq.2]; simp
            · exact haa hq.2
          · rfl
        rw [hget]
        simp only
        split
        · exact ⟨ps, hps⟩
        · rename_i hdisp
          have hshown : shouldDisplay T o a v = true := by simpa using hdisp
          have ht : fx.trig = true ∨ ∀ rid, getPresentation fx T o.type a = .ok (some rid) →
              classify T rid = .triggerId → TrigValid env v := by
            rcases htr with h | h
            · exact Or.inl h
            · refine Or.inr (fun rid hr hc => ?_)
              rcases h a v rid hv hr hc with h | h
              · rw [hshown] at h; cases h
              · exact h
          obtain ⟨p, hp⟩ := transformAttr_ok fx env o a v hv hw hpa ht
          rw [hp]
          simp only [hps]
          exact ⟨_, rfl⟩

/-- **the general statement**: a single effect / condition renders whenever each of the four recorded failures is
either repaired in the model or absent from the state (`Safe`).  Both corollaries below are instances. -/
theorem render_ok (fx : Fix) (T : Table) (env : Env) (o : Obj) (withDef : Bool) (hT : tableOK T = true)
    (hc : Complete T o) (hw : WellTyped fx T o) (hs : Safe fx T env o withDef) :
    ∃ out, renderObj fx T env o withDef = .ok out := by
  obtain ⟨hA, _, _, _, _⟩ := tableOK_parts hT
  obtain ⟨ls, hls⟩ := renderAttrs_ok fx env o hc hw hs.trig hs.aaSkip (attrList T o.type)
    (fun a ha => ⟨attrList_class hA o.type ha, getPresentation_ok fx hT o.type ha hs.presDefault⟩)
  unfold renderObj
  rw [hls]
  simp only
  split
  · exact ⟨_, rfl⟩
  · split
    · rename_i hwd
      split
      · exact ⟨_, rfl⟩
      · rename_i hnm
        split
        · exact ⟨_, rfl⟩
        · rename_i hne
          split
          · exact ⟨_, rfl⟩
          · rename_i hcn
            exfalso
            rcases hs.condName with h | h | h | h
            · exact hcn h
            · rw [hwd] at h; cases h
            · exact hne h
            · exact hnm h
    · exact ⟨_, rfl⟩

/-! ### totality of the repaired model -/

/-- **an effect or a condition always renders** (`str()` = `withDef true`, `get_content_as_string()` = `false`):
every type (known, unknown, −1), every environment (live or detached, any triggers / variables / units, any dataset
membership), every attribute value that fits its representation -/
theorem render_total_obj (T : Table) (env : Env) (o : Obj) (withDef : Bool) (hT : tableOK T = true)
    (hc : Complete T o) (hw : WellTyped Fix.fixed T o) :
    ∃ out, renderObj Fix.fixed T env o withDef = .ok out :=
  render_ok Fix.fixed T env o withDef hT hc hw ⟨Or.inl rfl, Or.inl rfl, Or.inl rfl, Or.inl rfl⟩

/-- **the pinned code renders a single effect / condition whenever none of the four recorded situations is present**:
no shown trigger reference dangles (F11a), the type of a condition rendered by `str()` is known (F11b), the type is
not −1 (F11c), the effect's armour/attack source is not `quantity` (F11d) -/
theorem asis_total_obj (T : Table) (env : Env) (o : Obj) (withDef : Bool) (hT : tableOK T = true)
    (hc : Complete T o) (hw : WellTyped Fix.asIs T o)
    (h1 : ∀ a v rid, assoc o.attrs a = some v → getPresentation Fix.asIs T o.type a = .ok (some rid) →
            classify T rid = .triggerId → shouldDisplay T o a v = false ∨ TrigValid env v)
    (h2 : withDef = false ∨ T.isEffect = true ∨ T.names.contains o.type = true)
    (h3 : o.type ≠ -1) (h4 : o.aaSrc ≠ .quantity) :
    ∃ out, renderObj Fix.asIs T env o withDef = .ok out :=
  render_ok Fix.asIs T env o withDef hT hc hw ⟨Or.inr h1, Or.inr h2, Or.inr h3, Or.inr h4⟩

theorem render_total_effect (T : Table) (env : Env) (o : Obj) (withDef : Bool) (_hE : T.isEffect = true)
    (hT : tableOK T = true) (hc : Complete T o) (hw : WellTyped Fix.fixed T o) :
    ∃ out, renderObj Fix.fixed T env o withDef = .ok out := render_total_obj T env o withDef hT hc hw

theorem render_total_condition (T : Table) (env : Env) (o : Obj) (withDef : Bool) (_hC : T.isEffect = false)
    (hT : tableOK T = true) (hc : Complete T o) (hw : WellTyped Fix.fixed T o) :
    ∃ out, renderObj Fix.fixed T env o withDef = .ok out := render_total_obj T env o withDef hT hc hw

private theorem renderCE_fixed_ok {T : Table} (env : Env) (objs : List Obj) (hT : tableOK T = true)
    (ho : ∀ o ∈ objs, ObjOk T o) (order : List Int) (hord : OrderOk objs.length order) (d : Nat) :
    ∃ out, renderCE Fix.fixed T env objs order d = .ok out := by
  induction order generalizing d with
  | nil => exact ⟨[], rfl⟩
  | cons i rest ih =>
    obtain ⟨h0, h1⟩ := hord i List.mem_cons_self
    obtain ⟨o, hpo, hmem⟩ := pyIndex_ok objs i h0 h1
    obtain ⟨body, hb⟩ := render_total_obj T env o false hT (ho o hmem).1 (ho o hmem).2
    obtain ⟨ls, hls⟩ := ih (fun j hj => hord j (List.mem_cons_of_mem _ hj)) (d + 1)
    unfold renderCE
    rw [hpo]; simp only [hb, hls]
    exact ⟨_, rfl⟩

/-- **a trigger always renders** (conditions and effects in their display orders) -/
theorem render_total_trigger (Te Tc : Table) (env : Env) (t : Trig) (hTe : tableOK Te = true) (hTc : tableOK Tc = true)
    (ht : TrigOk Te Tc t) : ∃ out, renderTrigger Fix.fixed Te Tc env t = .ok out := by
  obtain ⟨hc, he, hco, heo⟩ := ht
  obtain ⟨cs, hcs⟩ := renderCE_fixed_ok env t.conds hTc hc t.condOrder hco 0
  obtain ⟨es, hes⟩ := renderCE_fixed_ok env t.effs hTe he t.effOrder heo 0
  unfold renderTrigger
  simp only [hcs, hes]
  exact ⟨_, rfl⟩

private theorem nodup_ofNat_range (n : Nat) : ((List.range n).map Int.ofNat).Nodup := by
  unfold List.Nodup
  rw [List.pairwise_map]
  exact (List.nodup_range (n := n)).imp (fun h e => h (Int.ofNat.inj e))

private theorem inv_mem {m : Mgr} (h : Inv m) {i : Int} (hi : i ∈ m.order) : 0 ≤ i ∧ i < (m.trigs.length : Int) := by
  have := (h.mem_iff (a := i)).mp hi
  simp only [List.mem_map, List.mem_range] at this
  obtain ⟨k, hk, rfl⟩ := this
  exact ⟨Int.natCast_nonneg k, by show (k : Int) < _; exact_mod_cast hk⟩

private theorem inv_nodup {m : Mgr} (h : Inv m) : m.order.Nodup := (h.nodup_iff).mpr (nodup_ofNat_range _)

private theorem indexOf?_mem {l : List Int} {i : Int} (hi : i ∈ l) : ∃ d, indexOf? l i = some d := by
  induction l with
  | nil => cases hi
  | cons y rest ih =>
    unfold indexOf?
    by_cases hy : (y == i) = true
    · exact ⟨0, by simp [hy]⟩
    · have : i ∈ rest := by
        rcases List.mem_cons.mp hi with h | h
        · subst h; simp at hy
        · exact h
      obtain ⟨d, hd⟩ := ih this
      exact ⟨d + 1, by simp [hy, hd]⟩

private theorem managerContentGo_fixed_ok (Te Tc : Table) (env : Env) (m : Mgr) (hTe : tableOK Te = true)
    (hTc : tableOK Tc = true) (ht : ∀ t ∈ m.trigs, TrigOk Te Tc t) (hI : Inv m) (l : List Int)
    (hl : ∀ i ∈ l, i ∈ m.order) : ∃ out, managerContentGo Fix.fixed Te Tc env m l = .ok out := by
  induction l with
  | nil => exact ⟨[], rfl⟩
  | cons i rest ih =>
    have hi := hl i List.mem_cons_self
    obtain ⟨h0, h1⟩ := inv_mem hI hi
    obtain ⟨t, hpt, hmem⟩ := pyIndex_ok m.trigs i (by omega) h1
    obtain ⟨d, hd⟩ := indexOf?_mem hi
    obtain ⟨body, hb⟩ := render_total_trigger Te Tc env t hTe hTc (ht t hmem)
    obtain ⟨ls, hls⟩ := ih (fun j hj => hl j (List.mem_cons_of_mem _ hj))
    unfold managerContentGo validateIdx
    rw [hpt]; simp only [hd, hb, hls]
    exact ⟨_, rfl⟩

/-- **the manager content always renders** (`str(trigger_manager)`, `get_content_as_string()`) -/
theorem render_total_manager_content (Te Tc : Table) (w : World) (m : Mgr) (hTe : tableOK Te = true)
    (hTc : tableOK Tc = true) (hI : Inv m) (ht : ∀ t ∈ m.trigs, TrigOk Te Tc t) :
    ∃ out, managerContent Fix.fixed Te Tc w m = .ok out :=
  managerContentGo_fixed_ok Te Tc (envOf w m) m hTe hTc ht hI m.order (fun _ h => h)

private theorem managerSummaryGo_ok (m : Mgr) (l : List Int) (hl : ∀ i ∈ l, 0 ≤ i ∧ i < (m.trigs.length : Int)) (d : Nat) :
    ∃ out, managerSummaryGo m l d = .ok out ∧ out.map (fun t => t.1.2.1) = l ∧
      out.map (fun t => t.1.2.2) = List.range' d l.length ∧
      ∀ t ∈ out, ∃ tr, m.trigs[t.1.2.1.toNat]? = some tr ∧ t.1.1 = tr.name ∧ t.2 = (tr.conds.length, tr.effs.length) := by
  induction l generalizing d with
  | nil => exact ⟨[], rfl, rfl, rfl, by simp⟩
  | cons i rest ih =>
    obtain ⟨h0, h1⟩ := hl i List.mem_cons_self
    obtain ⟨t, hpt, hget⟩ := pyIndex_nonneg m.trigs i h0 h1
    obtain ⟨ls, hls, hidx, hdisp, hnames⟩ := ih (fun j hj => hl j (List.mem_cons_of_mem _ hj)) (d + 1)
    refine ⟨((t.name, i, d), t.conds.length, t.effs.length) :: ls, ?_, ?_, ?_, ?_⟩
    · unfold managerSummaryGo
      rw [hpt]; simp only [hls]
    · simp [hidx]
    · simp [hdisp, List.range'_succ]
    · intro x hx
      rcases List.mem_cons.mp hx with rfl | hx
      · exact ⟨t, hget, rfl, rfl⟩
      · exact hnames x hx

/-- **the manager summary always renders** (it contains no attribute rendering, so this holds for the pinned code too) -/
theorem render_total_manager_summary (m : Mgr) (hI : Inv m) : ∃ out, managerSummary m = .ok out := by
  obtain ⟨out, h, _⟩ := managerSummaryGo_ok m m.order (fun i hi => inv_mem hI hi) 0
  exact ⟨out, h⟩

/-! ### the listing clause -/

/-- **under the manager invariant the summary lists every trigger exactly once, in display order, with its name,
its index and its display index** (and the two counts of that trigger) -/
theorem listing_once (m : Mgr) (hI : Inv m) :
    ∃ l, summaryTriples m = .ok l ∧
      l.map (fun t => t.2.1) = m.order ∧                                   -- the indices, in display order
      l.map (fun t => t.2.2) = List.range m.trigs.length ∧                 -- display index = position, 0 … n−1
      (∀ t ∈ l, ∃ tr, m.trigs[t.2.1.toNat]? = some tr ∧ t.1 = tr.name) ∧  -- the name shown is that trigger's name
      (∀ k, k < m.trigs.length → (l.map (fun t => t.2.1)).count (k : Int) = 1) := by   -- every trigger exactly once
  obtain ⟨out, h, hidx, hdisp, hnames⟩ := managerSummaryGo_ok m m.order (fun i hi => inv_mem hI hi) 0
  have hlen : m.order.length = m.trigs.length := by simpa using hI.length_eq
  refine ⟨out.map (·.1), ?_, ?_, ?_, ?_, ?_⟩
  · unfold summaryTriples managerSummary
    rw [h]; rfl
  · rw [List.map_map]; exact hidx
  · have : (out.map (·.1)).map (fun t => t.2.2) = out.map (fun t => t.1.2.2) := by rw [List.map_map]; rfl
    rw [this, hdisp, hlen, List.range_eq_range']
  · intro t ht
    obtain ⟨x, hx, rfl⟩ := List.mem_map.mp ht
    obtain ⟨tr, h1, h2, _⟩ := hnames x hx
    exact ⟨tr, h1, h2⟩
  · intro k hk
    have : (out.map (·.1)).map (fun t => t.2.1) = m.order := by rw [List.map_map]; exact hidx
    rw [this, hI.count_eq]
    have hnd := nodup_ofNat_range m.trigs.length
    have hmem : (k : Int) ∈ (List.range m.trigs.length).map Int.ofNat :=
      List.mem_map.mpr ⟨k, List.mem_range.mpr hk, rfl⟩
    have h1 := (List.nodup_iff_count.mp hnd) (k : Int)
    have h2 := List.count_pos_iff.mpr hmem
    omega

private theorem indexOf?_append {pre : List Int} {i : Int} (rest : List Int) (h : i ∉ pre) :
    indexOf? (pre ++ i :: rest) i = some pre.length := by
  induction pre with
  | nil => simp [indexOf?]
  | cons y ys ih =>
    have hy : (y == i) = false := by
      have : y ≠ i := fun e => h (e ▸ List.mem_cons_self)
      simpa using this
    have hi : i ∉ ys := fun hm => h (List.mem_cons_of_mem _ hm)
    simp [indexOf?, hy, ih hi]

private theorem content_eq_summary_go (fx : Fix) (Te Tc : Table) (env : Env) (m : Mgr) (pre rest : List Int)
    (hord : m.order = pre ++ rest) (hnd : m.order.Nodup) (lc : List (Triple × TrigOut))
    (hc : managerContentGo fx Te Tc env m rest = .ok lc) :
    ∃ ls, managerSummaryGo m rest pre.length = .ok ls ∧ ls.map (·.1) = lc.map (·.1) := by
  induction rest generalizing pre lc with
  | nil =>
    simp only [managerContentGo] at hc
    cases hc
    exact ⟨[], rfl, rfl⟩
  | cons i rest ih =>
    unfold managerContentGo at hc
    cases hv : validateIdx m i with
    | error e => rw [hv] at hc; cases hc
    | ok dt =>
      obtain ⟨d, t⟩ := dt
      rw [hv] at hc
      simp only at hc
      cases hb : renderTrigger fx Te Tc env t with
      | error e => rw [hb] at hc; cases hc
      | ok body =>
        rw [hb] at hc
        simp only at hc
        cases hr : managerContentGo fx Te Tc env m rest with
        | error e => rw [hr] at hc; cases hc
        | ok lr =>
          rw [hr] at hc
          simp only at hc
          cases hc
          -- what `validateIdx` found
          unfold validateIdx at hv
          cases hp : pyIndex m.trigs i with
          | error e => rw [hp] at hv; simp only at hv; split at hv <;> cases hv
          | ok t' =>
            rw [hp] at hv
            simp only at hv
            cases hio : indexOf? m.order i with
            | none => rw [hio] at hv; cases hv
            | some d' =>
              rw [hio] at hv
              simp only [Except.ok.injEq, Prod.mk.injEq] at hv
              obtain ⟨rfl, rfl⟩ := hv
              -- the display index is the position: the order has no duplicates
              have hnot : i ∉ pre := by
                intro hm
                rw [hord] at hnd
                have := (List.nodup_append.mp hnd).2.2 i hm i List.mem_cons_self
                exact this rfl
              have hpos : indexOf? m.order i = some pre.length := by rw [hord]; exact indexOf?_append rest hnot
              rw [hpos] at hio
              cases hio
              obtain ⟨ls, hls, hmap⟩ := ih (pre ++ [i]) (by simp [hord]) lr hr
              simp only [List.length_append, List.length_cons, List.length_nil] at hls
              refine ⟨((t'.name, i, pre.length), t'.conds.length, t'.effs.length) :: ls, ?_, ?_⟩
              · unfold managerSummaryGo
                rw [hp]; simp only [hls]
              · simp [hmap]

/-- **whenever the manager content renders (pinned or repaired code) it lists exactly the triples of the summary** –
same names, indices and display indices, every trigger once, in display order -/
theorem listing_content (fx : Fix) (Te Tc : Table) (w : World) (m : Mgr) (hI : Inv m) (l : List Triple)
    (hc : contentTriples fx Te Tc w m = .ok l) : summaryTriples m = .ok l := by
  unfold contentTriples managerContent at hc
  cases hg : managerContentGo fx Te Tc (envOf w m) m m.order with
  | error e => rw [hg] at hc; cases hc
  | ok lc =>
    rw [hg] at hc
    simp only [Except.map, Except.ok.injEq] at hc
    obtain ⟨ls, hls, hmap⟩ := content_eq_summary_go fx Te Tc (envOf w m) m [] m.order rfl (inv_nodup hI) lc hg
    unfold summaryTriples managerSummary
    simp only [List.length_nil] at hls
    rw [hls]
    simp only [Except.map, Except.ok.injEq]
    rw [hmap]; exact hc

/-! ### obligations on the regenerated tables (all 15 versions; identical tables are emitted once) -/

open Aoe.Generated.Presentation in
/-- every version's effect and condition table is well formed: every attribute the rendering loop reads exists on
the class, every attribute of a known type has a presentation (own or default row), the default row exists, the
name / attribute / presentation tables have matching keys -/
theorem tables_ok : tables.all tableOK = true := by decide +kernel

open Aoe.Generated.Presentation in
/-- every representation kind named in any version's JSON is handled by a branch of
`transform_value_by_representation` (none falls into the `else: raise ValueError`) -/
theorem reps_handled : tables.all repsHandled = true := by decide +kernel

open Aoe.Generated.Presentation in
/-- the same, stated per version (effect table and condition table of each of the 15 versions) -/
theorem versions_ok : versions.all (fun v => tableOK v.2.1 && tableOK v.2.2 && v.2.1.isEffect && !v.2.2.isEffect) = true := by
  decide +kernel

open Aoe.Generated.Presentation in
/-- only the newest tables give every `empty_attributes` entry a default presentation; for every older version the
type −1 therefore walks into `source[-1][key]` on the pinned code (defect F11c) -/
theorem default_rows :
    versions.map (fun v => (v.1, emptyCovered v.2.1, emptyCovered v.2.2)) =
      [("1.36", false, false), ("1.37", false, false), ("1.40", false, false), ("1.41", false, false),
       ("1.42", false, false), ("1.43", false, false), ("1.44", false, false), ("1.45", false, false),
       ("1.46", false, true), ("1.47", false, true), ("1.48", false, true), ("1.49", false, true),
       ("1.51", false, true), ("1.53", false, true), ("1.54", true, true)] := by decide +kernel

/-! ### the pinned code: concrete failing inputs (defects F11a – F11d) -/

def errOf {α : Type} : Except Err α → Option Err
  | .ok _ => none
  | .error e => some e

/-- a registered scenario with two triggers, no variables, no units; no dataset member matters -/
def demoMgr : Mgr := ⟨[⟨"t0", [], [], [], []⟩, ⟨"t1", [], [], [], []⟩], [0, 1], []⟩
def demoWorld (live : Bool) : World := ⟨live, [], fun _ _ => false⟩
def demoEnv (live : Bool) : Env := envOf (demoWorld live) demoMgr

open Aoe.Generated.Presentation in
/-- an `activate_trigger` effect (version 1.54 table) pointing at `tid` -/
def actEffect (tid : Int) : Obj := mkObj e_1_54.classAttrs activateTrigger .none [(eA_effect_type, .int activateTrigger), (eA_trigger_id, .int tid)]

open Aoe.Generated.Presentation in
/-- **F11a**: trigger_id = n (first index that does not exist) → `AttributeError`; below −n → `IndexError`; any shown
id on a detached effect → `AttributeError`; the failure propagates to the trigger and to `str(trigger_manager)`;
ids −n … −1 silently show another trigger's name; with the repair all of them render -/
theorem dangling_trigger_counter :
    errOf (renderObj Fix.asIs e_1_54 (demoEnv true) (actEffect 2) false) = some .attributeError ∧
    errOf (renderObj Fix.asIs e_1_54 (demoEnv true) (actEffect 7) true) = some .attributeError ∧
    errOf (renderObj Fix.asIs e_1_54 (demoEnv true) (actEffect (-3)) false) = some .indexError ∧
    errOf (renderObj Fix.asIs e_1_54 (demoEnv false) (actEffect 0) false) = some .attributeError ∧
    errOf (managerContent Fix.asIs e_1_54 c_1_54 (demoWorld true)
      ⟨[⟨"t0", [], [actEffect 2], [], [0]⟩, ⟨"t1", [], [], [], []⟩], [0, 1], []⟩) = some .attributeError ∧
    errOf (renderObj Fix.asIs e_1_54 (demoEnv true) (actEffect 1) false) = none ∧
    errOf (renderObj Fix.asIs e_1_54 (demoEnv true) (actEffect (-2)) false) = none ∧
    errOf (renderObj Fix.fixed e_1_54 (demoEnv true) (actEffect 2) true) = none ∧
    errOf (renderObj Fix.fixed e_1_54 (demoEnv true) (actEffect (-3)) true) = none ∧
    errOf (renderObj Fix.fixed e_1_54 (demoEnv false) (actEffect 0) true) = none := by decide +kernel

open Aoe.Generated.Presentation in
/-- a condition of a type unknown to the datasets with `quantity = 5` -/
def unknownCond (ty : Int) : Obj := mkObj c_1_54.classAttrs ty .none [(cA_condition_type, .int ty), (cA_quantity, .int 5)]

open Aoe.Generated.Presentation in
/-- **F11b**: `str(condition)` of an unknown type raises `KeyError`; its content (as used inside a trigger) and the
same situation for an effect do not -/
theorem unknown_condition_counter :
    errOf (renderObj Fix.asIs c_1_54 (demoEnv true) (unknownCond 9999) true) = some .keyError ∧
    errOf (renderObj Fix.asIs c_1_54 (demoEnv true) (unknownCond 9999) false) = none ∧
    errOf (renderObj Fix.asIs e_1_54 (demoEnv true)
      (mkObj e_1_54.classAttrs 9999 .none [(eA_effect_type, .int 9999), (eA_quantity, .int 5)]) true) = none ∧
    errOf (renderObj Fix.fixed c_1_54 (demoEnv true) (unknownCond 9999) true) = none := by decide +kernel

open Aoe.Generated.Presentation in
/-- a freshly created condition of version 1.45 (`timer_id` … are newer than the version: `None`) with type −1 -/
def minusOneCond : Obj :=
  mkObj c_1_45.classAttrs (-1) .none [(cA_condition_type, .int (-1)), (cA_timer_id, .none), (cA_victory_timer_type, .none),
    (cA_include_changeable_weapon_objects, .none)]

open Aoe.Generated.Presentation in
/-- **F11c**: type −1 is found in the presentation table (its row of defaults) and the walk over all
`empty_attributes` hits an attribute without default presentation → `KeyError`, also through the trigger -/
theorem default_row_counter :
    errOf (renderObj Fix.asIs c_1_45 (demoEnv false) minusOneCond false) = some .keyError ∧
    errOf (renderTrigger Fix.asIs e_1_45 c_1_45 (demoEnv false) ⟨"t", [minusOneCond], [], [0], []⟩) = some .keyError ∧
    errOf (renderObj Fix.fixed c_1_45 (demoEnv false) minusOneCond true) = none := by decide +kernel

open Aoe.Generated.Presentation in
/-- a `modify_attribute` effect switched to ATTACK after construction: class and amount are `None` -/
def switchedEffect : Obj :=
  mkObj e_1_54.classAttrs modifyAttribute .quantity [(eA_effect_type, .int modifyAttribute), (eA_object_attributes, .int attackAttribute),
    (eA_armour_attack_class, .none), (eA_armour_attack_quantity, .none), (eA_quantity, .int 5)]

open Aoe.Generated.Presentation in
/-- **F11d**: the `quantity` getter is evaluated before the display filter hides it → `TypeError`; on a detached
effect even with class and amount set (trigger version `None`) -/
theorem aa_getter_counter :
    errOf (renderObj Fix.asIs e_1_54 (demoEnv true) switchedEffect false) = some .typeError ∧
    errOf (renderObj Fix.asIs e_1_54 (demoEnv false)
      (mkObj e_1_54.classAttrs modifyAttribute .quantity [(eA_effect_type, .int modifyAttribute), (eA_object_attributes, .int attackAttribute),
        (eA_armour_attack_class, .int 3), (eA_armour_attack_quantity, .int 4)]) false) = some .typeError ∧
    errOf (renderObj Fix.fixed e_1_54 (demoEnv true) switchedEffect true) = none := by decide +kernel

open Aoe.Generated.Presentation in
/-- the hypothesis `WellTyped` of the totality theorems is needed: a value that does not fit its representation
(a string as technology id, `None` as unit constant, a list as player colour) raises `TypeError` in the repaired model
as well (and in the code); the same values under a representation that accepts anything do not -/
theorem illtyped_counter :
    errOf (renderObj Fix.fixed e_1_54 (demoEnv true)
      (mkObj e_1_54.classAttrs 2 .none [(eA_effect_type, .int 2), (eA_technology, .str "abc")]) true) = some .typeError ∧
    errOf (renderObj Fix.fixed e_1_54 (demoEnv true)
      (mkObj e_1_54.classAttrs 11 .none [(eA_effect_type, .int 11), (eA_object_list_unit_id, .none)]) true) = some .typeError ∧
    errOf (renderObj Fix.fixed e_1_54 (demoEnv true)
      (mkObj e_1_54.classAttrs activateTrigger .none [(eA_effect_type, .int 8), (eA_trigger_id, .list [1])]) true) = some .typeError ∧
    errOf (renderObj Fix.fixed e_1_54 (demoEnv true)
      (mkObj e_1_54.classAttrs 2 .none [(eA_effect_type, .int 2), (eA_source_player, .str "abc")]) true) = none := by
  decide +kernel

/-! ### non-vacuity: the hypotheses are met by concrete, non-trivial states – among them the very states on which the
pinned code fails -/

/-- decidable form of `WellTyped` (checks every stored pair, `assoc` only sees the first of each attribute) -/
def wellTypedB (fx : Fix) (T : Table) (o : Obj) : Bool :=
  o.attrs.all fun av =>
    match getPresentation fx T o.type av.1 with
    | .ok (some rid) => valOk (classify T rid) av.2
    | _ => true

def completeB (T : Table) (o : Obj) : Bool := T.classAttrs.all fun a => (assoc o.attrs a).isSome

def trigValidB (env : Env) : Val → Bool
  | .int i => env.live && decide (-(env.trigNames.length : Int) ≤ i) && decide (i < (env.trigNames.length : Int))
  | _ => false

def trigRefsB (fx : Fix) (T : Table) (env : Env) (o : Obj) : Bool :=
  o.attrs.all fun av =>
    match getPresentation fx T o.type av.1 with
    | .ok (some rid) => classify T rid != .triggerId || !shouldDisplay T o av.1 av.2 || trigValidB env av.2
    | _ => true

theorem wellTyped_of_B {fx : Fix} {T : Table} {o : Obj} (h : wellTypedB fx T o = true) : WellTyped fx T o := by
  intro a v rid hv hr
  have := (List.all_eq_true.mp h) (a, v) (assoc_mem hv)
  simp only [hr] at this
  exact this

theorem complete_of_B {T : Table} {o : Obj} (h : completeB T o = true) : Complete T o :=
  fun a ha => (List.all_eq_true.mp h) a ha

theorem trigRefs_of_B {fx : Fix} {T : Table} {env : Env} {o : Obj} (h : trigRefsB fx T env o = true) :
    ∀ a v rid, assoc o.attrs a = some v → getPresentation fx T o.type a = .ok (some rid) →
      classify T rid = .triggerId → shouldDisplay T o a v = false ∨ TrigValid env v := by
  intro a v rid hv hr hc
  have := (List.all_eq_true.mp h) (a, v) (assoc_mem hv)
  simp only [hr, hc, bne_self_eq_false, Bool.false_or, Bool.or_eq_true, Bool.not_eq_true'] at this
  rcases this with h | h
  · exact Or.inl h
  · refine Or.inr ?_
    cases v with
    | int i =>
      simp only [trigValidB, Bool.and_eq_true, decide_eq_true_eq] at h
      exact ⟨h.1.1, i, rfl, h.1.2, h.2⟩
    | _ => simp [trigValidB] at h

theorem objOk_of_B {T : Table} {o : Obj} (h : (completeB T o && wellTypedB Fix.fixed T o) = true) : ObjOk T o := by
  simp only [Bool.and_eq_true] at h
  exact ⟨complete_of_B h.1, wellTyped_of_B h.2⟩

open Aoe.Generated.Presentation in
/-- the four failing states of the pinned code satisfy the hypotheses of `render_total_obj` -/
example : ObjOk e_1_54 (actEffect 2) ∧ ObjOk e_1_54 (actEffect (-3)) ∧ ObjOk c_1_54 (unknownCond 9999) ∧
    ObjOk c_1_45 minusOneCond ∧ ObjOk e_1_54 switchedEffect :=
  ⟨objOk_of_B (by decide +kernel), objOk_of_B (by decide +kernel), objOk_of_B (by decide +kernel),
   objOk_of_B (by decide +kernel), objOk_of_B (by decide +kernel)⟩

open Aoe.Generated.Presentation in
private theorem demo_tables_ok : tableOK e_1_54 = true ∧ tableOK c_1_54 = true := by decide +kernel

open Aoe.Generated.Presentation in
/-- … so the repaired model renders them (instance of the theorem, not of `decide`) -/
example : ∃ out, renderObj Fix.fixed e_1_54 (demoEnv true) (actEffect 2) true = .ok out :=
  render_total_effect e_1_54 (demoEnv true) (actEffect 2) true (by decide +kernel)
    demo_tables_ok.1 (objOk_of_B (by decide +kernel)).1 (objOk_of_B (by decide +kernel)).2

/-- a manager with three triggers shown in the order 2, 0, 1; the first trigger holds two effects shown in reverse -/
def demoMgr3 : Mgr :=
  ⟨[⟨"a", [unknownCond 9999], [actEffect 1, actEffect 5], [0], [1, 0]⟩, ⟨"b", [], [], [], []⟩, ⟨"c", [], [switchedEffect], [], [0]⟩],
   [2, 0, 1], [(3, "v3")]⟩

example : Inv demoMgr3 := by unfold Inv; decide

def orderOkB (n : Nat) (order : List Int) : Bool :=
  order.all fun i => decide (-(n : Int) ≤ i) && decide (i < (n : Int))

def trigOkB (Te Tc : Table) (t : Trig) : Bool :=
  t.conds.all (fun o => completeB Tc o && wellTypedB Fix.fixed Tc o) &&
  t.effs.all (fun o => completeB Te o && wellTypedB Fix.fixed Te o) &&
  orderOkB t.conds.length t.condOrder && orderOkB t.effs.length t.effOrder

theorem orderOk_of_B {n : Nat} {order : List Int} (h : orderOkB n order = true) : OrderOk n order := by
  intro i hi
  have := (List.all_eq_true.mp h) i hi
  simpa using this

theorem trigOk_of_B {Te Tc : Table} {t : Trig} (h : trigOkB Te Tc t = true) : TrigOk Te Tc t := by
  unfold trigOkB at h
  simp only [Bool.and_eq_true] at h
  obtain ⟨⟨⟨hc, he⟩, hco⟩, heo⟩ := h
  exact ⟨fun o ho => objOk_of_B ((List.all_eq_true.mp hc) o ho), fun o ho => objOk_of_B ((List.all_eq_true.mp he) o ho),
    orderOk_of_B hco, orderOk_of_B heo⟩

open Aoe.Generated.Presentation in
example : ∀ t ∈ demoMgr3.trigs, TrigOk e_1_54 c_1_54 t := fun t ht =>
  trigOk_of_B ((List.all_eq_true.mp (by decide +kernel : demoMgr3.trigs.all (trigOkB e_1_54 c_1_54) = true)) t ht)

/-- the listing of that manager: every trigger once, in display order, with index and display index -/
example : (summaryTriples demoMgr3).toOption.map (·.map fun t => (t.2.1, t.2.2)) = some [(2, 0), (0, 1), (1, 2)] := by
  decide +kernel

open Aoe.Generated.Presentation in
/-- on the pinned code its content does not render (the dangling `actEffect 5` and the switched effect), with the
repairs it does and lists the same triples as the summary -/
example : errOf (managerContent Fix.asIs e_1_54 c_1_54 (demoWorld true) demoMgr3) = some .typeError ∧
    (contentTriples Fix.fixed e_1_54 c_1_54 (demoWorld true) demoMgr3).toOption.map (·.map fun t => (t.2.1, t.2.2)) =
      some [(2, 0), (0, 1), (1, 2)] := by decide +kernel

open Aoe.Generated.Presentation in
/-- the hypotheses of `asis_total_obj` are met by an ordinary effect: `activate_trigger` pointing at an existing
trigger, and by one whose reference is unset (−1 is not shown) -/
example : ∃ out, renderObj Fix.asIs e_1_54 (demoEnv true) (actEffect 1) true = .ok out :=
  asis_total_obj e_1_54 (demoEnv true) (actEffect 1) true demo_tables_ok.1
    (complete_of_B (by decide +kernel)) (wellTyped_of_B (by decide +kernel)) (trigRefs_of_B (by decide +kernel))
    (Or.inr (Or.inl (by decide +kernel))) (by decide) (by decide)

open Aoe.Generated.Presentation in
example : trigRefsB Fix.asIs e_1_54 (demoEnv false) (actEffect (-1)) = true ∧
    trigRefsB Fix.asIs e_1_54 (demoEnv true) (actEffect 2) = false := by decide +kernel

end Aoe.Props.C19
