import Aoe.Props.CommitHolds
import Aoe.Props.C17
import Aoe.Model.Players
/-!
# Per-class reconstruction hooks on top of the commit engine (C01 / C03 / C04, manager level)

The engine theorems of `Aoe.Props.CommitHolds` reduce "what you set is what you get after save and re-load" to one law per
class hook (`Hook.Law`).  This file proves such laws for the per-class Python that the engine theorems leave open:

* `count_link_consistent` – a count that is a *link of its own* (`_PlayerUnits.unit_count`, whose reconstruction property
  is `len(self.units)`): when the object hands the number of its child objects to the count link, then after the commit the
  count retriever holds exactly the number of stored records.  (`Aoe.Props.CommitCounts.commit_counts` does not claim this
  list: its guard fails because a link writes the count retriever.)
* `Hook.LawOn`, `manager_roundtrip_on` – the hook law relative to a domain predicate (the objects a class can actually hand
  to `push` without raising).
* `effectHook` – the armour/attack slice of `Effect` (`effect_type`, `object_attributes`, `quantity`, `_variable_ref` with
  the `quantity` / `_variable_ref` reconstruction properties and the file branch of `Effect.__init__`, model
  `Aoe.Model.AA`): `effect_roundtrip`.
-/
namespace Aoe.Props.Hooks
open Aoe Aoe.Codec Aoe.Lens Aoe.Commit Aoe.Props.Links Aoe.Props.CommitFrame Aoe.Props.CommitHolds

theorem mem_zip_of_getElem? {α β : Type} (l : List α) (v : List β) (j : Nat) (a : α) (b : β)
    (ha : l[j]? = some a) (hb : v[j]? = some b) : (a, b) ∈ l.zip v := by
  apply List.mem_of_getElem? (i := j)
  rw [List.getElem?_zip_eq_some]
  exact ⟨ha, hb⟩

/-- **a count that is a link of its own**: if the object hands `len(children)` to its count link (position `jc`, a plain
link) and the children to its object-list link (position `jl`), then after a successful commit the count retriever holds
the number of objects and the struct list has exactly that many records -/
theorem count_link_consistent (classes : List ClassSpec) (fuel cls : Nat) (hist : List Nat) (vals : List Val) (s s' : Sections)
    (c : ClassSpec) (jc jl nc nl ccls : Nat) (pc pl : List PStep) (ac : List RefreshAct) (namesc : List Nat)
    (d : List Val) (nm : List Nat) (g : List (Nat × Aoe.Codec.Expr)) (al : List RefreshAct) (namesl : List Nat) (os : List Val)
    (hsafe : tableSafe classes (fuel + 1) cls hist.length = true)
    (h : commitObj classes (fuel + 1) cls hist (.strct vals) s = .ok s')
    (hc : classes[cls]? = some c)
    (hjc : c.links[jc]? = some (nc, .plain pc ac namesc))
    (hjl : c.links[jl]? = some (nl, .objs pl ccls d nm g al namesl))
    (hvc : vals[jc]? = some (.int os.length)) (hvl : vals[jl]? = some (.list os)) :
    ∃ p q, resolve hist pc = some p ∧ resolve hist pl = some q ∧
      getAt p s'.root = some (.int os.length) ∧ ListLen q os.length s'.root := by
  have hh := commit_holds classes (fuel + 1) cls hist (.strct vals) s s' hsafe h
  simp only [Holds, hc] at hh
  have h1 := hh _ (mem_zip_of_getElem? c.links vals jc _ _ hjc hvc)
  have h2 := hh _ (mem_zip_of_getElem? c.links vals jl _ _ hjl hvl)
  simp only [linkHolds] at h1 h2
  obtain ⟨p, hp, hg⟩ := h1
  obtain ⟨q, os', hq, hos, hlen, _⟩ := h2
  have : os' = os := by injection hos with e; exact e.symm
  subst this
  exact ⟨p, q, hp, hq, hg, hlen⟩

/-- the static shape `count_link_of_table` needs: link `jc` is a plain link, link `jl` an object-list link -/
def ownCountShape (c : ClassSpec) (jc jl : Nat) : Bool :=
  match c.links[jc]?, c.links[jl]? with
  | some (_, .plain _ _ _), some (_, .objs _ _ _ _ _ _ _) => true
  | _, _ => false

/-- `count_link_consistent` with the link shapes read off the class table (closed by `decide` per generated class) -/
theorem count_link_of_table (classes : List ClassSpec) (fuel cls : Nat) (hist : List Nat) (vals : List Val) (s s' : Sections)
    (c : ClassSpec) (jc jl : Nat) (os : List Val)
    (hsafe : tableSafe classes (fuel + 1) cls hist.length = true)
    (h : commitObj classes (fuel + 1) cls hist (.strct vals) s = .ok s')
    (hc : classes[cls]? = some c) (hshape : ownCountShape c jc jl = true)
    (hvc : vals[jc]? = some (.int os.length)) (hvl : vals[jl]? = some (.list os)) :
    ∃ nc pc ac namesc nl pl ccls d nm g al namesl p q,
      c.links[jc]? = some (nc, .plain pc ac namesc) ∧ c.links[jl]? = some (nl, .objs pl ccls d nm g al namesl) ∧
      resolve hist pc = some p ∧ resolve hist pl = some q ∧
      getAt p s'.root = some (.int os.length) ∧ ListLen q os.length s'.root := by
  unfold ownCountShape at hshape
  split at hshape
  · rename_i nc pc ac namesc nl pl ccls d nm g al namesl hjc hjl
    obtain ⟨p, q, h1, h2, h3, h4⟩ := count_link_consistent classes fuel cls hist vals s s' c jc jl nc nl ccls pc pl ac namesc
      d nm g al namesl os hsafe h hc hjc hjl hvc hvl
    exact ⟨nc, pc, ac, namesc, nl, pl, ccls, d, nm, g, al, namesl, p, q, hjc, hjl, h1, h2, h3, h4⟩
  · exact absurd hshape (by simp)

/-! ### what one link leaves in the file, with the link's shape read off the class table -/

def isPlainAt (c : ClassSpec) (j : Nat) : Bool :=
  match c.links[j]? with
  | some (_, .plain _ _ _) => true
  | _ => false

def isObjsAt (c : ClassSpec) (j : Nat) : Bool :=
  match c.links[j]? with
  | some (_, .objs _ _ _ _ _ _ _) => true
  | _ => false

/-- after a commit the retriever of plain link `j` holds the value the object handed to it -/
theorem plain_of_table (classes : List ClassSpec) (fuel cls : Nat) (hist : List Nat) (vals : List Val) (s s' : Sections)
    (c : ClassSpec) (j : Nat) (v : Val)
    (hsafe : tableSafe classes (fuel + 1) cls hist.length = true)
    (h : commitObj classes (fuel + 1) cls hist (.strct vals) s = .ok s')
    (hc : classes[cls]? = some c) (hshape : isPlainAt c j = true) (hv : vals[j]? = some v) :
    ∃ a path acts names p, c.links[j]? = some (a, .plain path acts names) ∧ resolve hist path = some p ∧
      getAt p s'.root = some v := by
  unfold isPlainAt at hshape
  split at hshape
  · rename_i a path acts names hj
    have hh := commit_holds classes (fuel + 1) cls hist (.strct vals) s s' hsafe h
    simp only [Holds, hc] at hh
    have h1 := hh _ (mem_zip_of_getElem? c.links vals j _ _ hj hv)
    simp only [linkHolds] at h1
    obtain ⟨p, hp, hg⟩ := h1
    exact ⟨a, path, acts, names, p, hj, hp, hg⟩
  · exact absurd hshape (by simp)

/-- after a commit the struct list of object-list link `j` has one record per object -/
theorem list_of_table (classes : List ClassSpec) (fuel cls : Nat) (hist : List Nat) (vals : List Val) (s s' : Sections)
    (c : ClassSpec) (j : Nat) (os : List Val)
    (hsafe : tableSafe classes (fuel + 1) cls hist.length = true)
    (h : commitObj classes (fuel + 1) cls hist (.strct vals) s = .ok s')
    (hc : classes[cls]? = some c) (hshape : isObjsAt c j = true) (hv : vals[j]? = some (.list os)) :
    ∃ a path ccls d nm g acts names q, c.links[j]? = some (a, .objs path ccls d nm g acts names) ∧
      resolve hist path = some q ∧ ListLen q os.length s'.root := by
  unfold isObjsAt at hshape
  split at hshape
  · rename_i a path ccls d nm g acts names hj
    have hh := commit_holds classes (fuel + 1) cls hist (.strct vals) s s' hsafe h
    simp only [Holds, hc] at hh
    have h2 := hh _ (mem_zip_of_getElem? c.links vals j _ _ hj hv)
    simp only [linkHolds] at h2
    obtain ⟨q, os', hq, hos, hlen, _⟩ := h2
    have : os' = os := by injection hos with e; exact e.symm
    subst this
    exact ⟨a, path, ccls, d, nm, g, acts, names, q, hj, hq, hlen⟩
  · exact absurd hshape (by simp)

/-! ### the hook law relative to a domain -/

/-- the hook law on the objects of a domain `D` (the objects the class can hand to `push` without raising) -/
def _root_.Aoe.Props.CommitHolds.Hook.LawOn {Obj : Type} (H : Hook Obj) (D : Obj → Prop) (classes : List ClassSpec) (fuel cls : Nat) (hist : List Nat) : Prop :=
  ∀ o : Obj, D o → WF classes fuel cls hist (H.toVal o) ∧ H.ofVal (normalize classes fuel cls hist (H.toVal o)) = some o

/-- **what you set is what you get** after commit and construct, for every object of the hook's domain -/
theorem manager_roundtrip_on {Obj : Type} (H : Hook Obj) (D : Obj → Prop) (classes : List ClassSpec) (fuel cls : Nat)
    (hist : List Nat) (hsafe : tableSafe classes fuel cls hist.length = true) (hlaw : H.LawOn D classes fuel cls hist)
    (o : Obj) (ho : D o) (s s' : Sections) (h : commitObj classes fuel cls hist (H.toVal o) s = .ok s') :
    (constructObj classes fuel cls hist s').toOption.bind H.ofVal = some o := by
  obtain ⟨hwf, hinv⟩ := hlaw o ho
  rw [construct_after_commit classes fuel cls hist (H.toVal o) s s' hsafe hwf h]
  simpa [Except.toOption] using hinv

/-! ### classes of plain links (and links the version lacks): the engine hands back exactly the pushed values -/

def isPlain : LinkKind → Bool
  | .plain _ _ _ => true
  | _ => false

def plainOrSkip : LinkKind → Bool
  | .plain _ _ _ => true
  | .skip => true
  | _ => false

/-- every link of the class is a plain value link or a link this scenario version does not support -/
def allPlainSkip (c : ClassSpec) : Bool := c.links.all (fun l => plainOrSkip l.2)

/-- the attributes this version does not support are `None` (that is what a re-load returns for them) -/
def SkipNone (L : List (Nat × LinkKind)) (vals : List Val) : Prop :=
  ∀ lv ∈ L.zip vals, isPlain lv.1.2 = false → lv.2 = .none

theorem map_normLink_plainSkip (N : Nat → List Nat → Val → Val) (hist : List Nat) (L : List (Nat × LinkKind))
    (hL : L.all (fun l => plainOrSkip l.2) = true) :
    ∀ vals : List Val, vals.length = L.length → SkipNone L vals → (L.zip vals).map (normLink N hist) = vals := by
  induction L with
  | nil => intro vals hl _; cases vals <;> simp_all
  | cons l L ih =>
    intro vals hl hs
    cases vals with
    | nil => simp at hl
    | cons v vals =>
      simp only [List.all_cons, Bool.and_eq_true] at hL
      simp only [List.zip_cons_cons, List.map_cons]
      rw [ih hL.2 vals (by simpa using hl) (fun lv hlv => hs lv (by simp [hlv]))]
      congr 1
      have h0 := hs (l, v) (by simp)
      obtain ⟨a, k⟩ := l
      cases k <;> simp_all [normLink, isPlain, plainOrSkip]

theorem normalize_plainSkip (classes : List ClassSpec) (fuel cls : Nat) (hist : List Nat) (c : ClassSpec) (vals : List Val)
    (hc : classes[cls]? = some c) (hp : allPlainSkip c = true) (hl : vals.length = c.links.length)
    (hs : SkipNone c.links vals) :
    normalize classes (fuel + 1) cls hist (.strct vals) = .strct vals := by
  simp only [normalize, hc]
  rw [map_normLink_plainSkip _ hist c.links hp vals hl hs]

theorem wf_plainSkip (classes : List ClassSpec) (fuel cls : Nat) (hist : List Nat) (c : ClassSpec) (vals : List Val)
    (hc : classes[cls]? = some c) (hp : allPlainSkip c = true) (hl : vals.length = c.links.length) :
    WF classes (fuel + 1) cls hist (.strct vals) := by
  simp only [WF, hc]
  refine ⟨hl, ?_⟩
  intro lv hlv
  have hm : lv.1 ∈ c.links := (List.of_mem_zip hlv).1
  have := List.all_eq_true.mp hp lv.1 hm
  obtain ⟨⟨a, k⟩, v⟩ := lv
  cases k <;> simp_all [linkWF, plainOrSkip]

/-! ### the armour/attack slice of `Effect`

The Effect class hands `getattr(effect, link.name)` to `push`: for the link `quantity` that is the `quantity` property
(class and amount merged when the effect is a quantity-based armour/attack effect), for the link `_variable_ref` the
`_variable_ref` property (class and variable merged for the by-variable effects); the constructor `Effect(**pulled)` splits
them again (`Aoe.AA.ofStored`).  All other links are handed through as they are (their per-attribute normalisations in
`Effect.__init__` are outside this slice and stay with the correspondence check). -/
open Aoe.AA

def encOpt : Option Int → Val
  | some i => .int i
  | none => .none

def decOpt : Val → Option (Option Int)
  | .int i => some (some i)
  | .none => some none
  | _ => none

def decInt : Val → Option Int
  | .int i => some i
  | _ => none

@[simp] theorem decOpt_encOpt (o : Option Int) : decOpt (encOpt o) = some o := by cases o <;> rfl

/-- positions of the four links of the slice in the class's link list -/
structure Slots where
  it : Nat   -- effect_type
  ia : Nat   -- object_attributes
  iq : Nat   -- quantity
  iv : Nat   -- _variable_ref

def Slots.ok (P : Slots) : Prop := P.iq ≠ P.iv ∧ P.it ≠ P.iq ∧ P.it ≠ P.iv ∧ P.ia ≠ P.iq ∧ P.ia ≠ P.iv

instance (P : Slots) : Decidable P.ok := by unfold Slots.ok; infer_instance

/-- an `Effect` as the API sees it: one value per link (the two packed links are not part of the API state and are kept
`None` here) plus the armour/attack state -/
structure EffectObj where
  slots : List Val
  e : Eff

/-- what the effect hands to `push` (`none` when a reconstruction property raises - `None * 65536` is a TypeError) -/
def effToVal (k : Nat) (P : Slots) (o : EffectObj) : Val :=
  match storedQuantity k o.e, storedVariable k o.e with
  | .ok q, .ok v => .strct ((o.slots.set P.iq (encOpt q)).set P.iv (.int v))
  | _, _ => .none

/-- `Effect(**pulled)`: the file branch of `Effect.__init__` -/
def effOfVal (k : Nat) (f : Family) (P : Slots) : Val → Option EffectObj
  | .strct vals =>
    (vals[P.iq]?.bind decOpt).bind fun q =>
    (vals[P.iv]?.bind decInt).bind fun v =>
    (vals[P.it]?.bind decOpt).bind fun et =>
    (vals[P.ia]?.bind decOpt).bind fun oa =>
      some { slots := (vals.set P.iq .none).set P.iv .none, e := ofStored k (source f et oa) q v }
  | _ => none

def effectHook (k : Nat) (f : Family) (P : Slots) : Hook EffectObj := { toVal := effToVal k P, ofVal := effOfVal k f P }

/-- the armour/attack state in the form every API route leaves it in, with an amount / variable that fits its `k` bits -/
def Canon (k : Nat) (e : Eff) : Prop :=
  match e.src with
  | .quantity => e.quantity = none ∧ ∃ c a, e.aaClass = some c ∧ e.aaQty = some a ∧ 0 ≤ a ∧ a < (2 ^ k : Int)
  | .variable => e.aaQty = none ∧ (∃ c, e.aaClass = some c) ∧ 0 ≤ e.var ∧ e.var < (2 ^ k : Int)
  | .none => e.aaClass = none ∧ e.aaQty = none

/-- the domain of the hook: one value per link of the class (`L`), `None` where the version lacks the attribute, the
family follows type and attribute, canonical armour/attack state -/
def EffDom (k : Nat) (f : Family) (P : Slots) (L : List (Nat × LinkKind)) (o : EffectObj) : Prop :=
  (o.slots.length = L.length ∧ SkipNone L o.slots) ∧ o.slots[P.iq]? = some .none ∧ o.slots[P.iv]? = some .none ∧
  (∃ et oa, o.slots[P.it]? = some (encOpt et) ∧ o.slots[P.ia]? = some (encOpt oa) ∧ o.e.src = source f et oa) ∧
  Canon k o.e

/-- the two packed links are plain links of the class (decided per generated table) -/
def slotsPlain (L : List (Nat × LinkKind)) (P : Slots) : Bool :=
  (match L[P.iq]? with | some l => isPlain l.2 | none => false) &&
  (match L[P.iv]? with | some l => isPlain l.2 | none => false)

theorem lt_of_get {α : Type} (l : List α) (i : Nat) (x : α) (h : l[i]? = some x) : i < l.length := by
  rcases Nat.lt_or_ge i l.length with h' | h'
  · exact h'
  · rw [List.getElem?_eq_none h'] at h; cases h

theorem get_set_set_first {α : Type} (l : List α) (i j : Nat) (a b x : α) (hij : i ≠ j) (hi : l[i]? = some x) :
    ((l.set i a).set j b)[i]? = some a := by
  have := lt_of_get l i x hi
  simp [Ne.symm hij, this]

theorem get_set_set_second {α : Type} (l : List α) (i j : Nat) (a b y : α) (hj : l[j]? = some y) :
    ((l.set i a).set j b)[j]? = some b := by
  have := lt_of_get l j y hj
  simp [this]

theorem get_set_set_other {α : Type} (l : List α) (i j t : Nat) (a b : α) (hi : t ≠ i) (hj : t ≠ j) :
    ((l.set i a).set j b)[t]? = l[t]? := by
  simp [Ne.symm hi, Ne.symm hj]

theorem set_set_restore {α : Type} (l : List α) (i j : Nat) (a b x y : α) (hi : l[i]? = some x) (hj : l[j]? = some y) :
    ((((l.set i a).set j b).set i x).set j y) = l := by
  have li := lt_of_get l i x hi
  have lj := lt_of_get l j y hj
  apply List.ext_getElem?
  intro t
  simp only [List.getElem?_set, List.length_set]
  by_cases h1 : j = t
  · subst h1; simp [lj]; rw [List.getElem?_eq_getElem lj] at hj; injection hj with e; exact e.symm
  · by_cases h2 : i = t
    · subst h2; simp [h1, li]; rw [List.getElem?_eq_getElem li] at hi; injection hi with e; exact e.symm
    · simp [h1, h2]

/-- the constructor inverts the reconstruction on the whole domain -/
theorem eff_of_to (k : Nat) (f : Family) (P : Slots) (L : List (Nat × LinkKind)) (o : EffectObj) (hP : P.ok)
    (h : EffDom k f P L o) :
    effOfVal k f P (effToVal k P o) = some o := by
  obtain ⟨hn, hq0, hv0, ⟨et, oa, het, hoa, hsrc⟩, hcan⟩ := h
  obtain ⟨hqv, htq, htv, haq, hav⟩ := hP
  obtain ⟨slots, e⟩ := o
  simp only at hn hq0 hv0 het hoa hsrc hcan
  -- what is pushed
  have key : ∃ q v, storedQuantity k e = .ok q ∧ storedVariable k e = .ok v ∧ ofStored k e.src q v = e := by
    obtain ⟨src, quantity, aaClass, aaQty, var⟩ := e
    cases src
    · -- quantity-based
      obtain ⟨h1, c, a, h2, h3, h4, h5⟩ := hcan
      simp only at h1 h2 h3
      subst h1 h2 h3
      refine ⟨some (merge k c a), var, rfl, rfl, ?_⟩
      have := Aoe.Props.C17.merge_split k c a h4 h5
      simp only [ofStored]
      rw [this]
    · -- by-variable
      obtain ⟨h1, ⟨c, h2⟩, h4, h5⟩ := hcan
      simp only at h1 h2 h4 h5
      subst h1 h2
      refine ⟨quantity, merge k c var, rfl, rfl, ?_⟩
      have := Aoe.Props.C17.merge_split k c var h4 h5
      simp only [ofStored]
      rw [this]
    · -- plain
      obtain ⟨h1, h2⟩ := hcan
      simp only at h1 h2
      subst h1 h2
      exact ⟨quantity, var, rfl, rfl, rfl⟩
  obtain ⟨q, v, hsq, hsv, hof⟩ := key
  simp only [effToVal, hsq, hsv, effOfVal]
  rw [get_set_set_first slots P.iq P.iv _ _ _ hqv hq0, get_set_set_second slots P.iq P.iv _ _ _ hv0,
    get_set_set_other slots P.iq P.iv P.it _ _ htq htv, get_set_set_other slots P.iq P.iv P.ia _ _ haq hav, het, hoa]
  simp only [Option.bind_some, decOpt_encOpt, decInt]
  rw [set_set_restore slots P.iq P.iv _ _ _ _ hq0 hv0, ← hsrc, hof]

theorem skipNone_set_set (L : List (Nat × LinkKind)) (P : Slots) (slots : List Val) (a b : Val)
    (hpl : slotsPlain L P = true) (hs : SkipNone L slots) : SkipNone L ((slots.set P.iq a).set P.iv b) := by
  intro lv hlv hnp
  obtain ⟨t, ht⟩ := List.mem_iff_getElem?.mp hlv
  rw [List.getElem?_zip_eq_some] at ht
  obtain ⟨h1, h2⟩ := ht
  simp only [slotsPlain, Bool.and_eq_true] at hpl
  by_cases hq : t = P.iq
  · subst hq; rw [h1] at hpl; simp only at hpl; rw [hpl.1] at hnp; cases hnp
  · by_cases hv : t = P.iv
    · subst hv; rw [h1] at hpl; simp only at hpl; rw [hpl.2] at hnp; cases hnp
    · rw [get_set_set_other slots P.iq P.iv t a b hq hv] at h2
      exact hs lv (by
        apply List.mem_of_getElem? (i := t)
        rw [List.getElem?_zip_eq_some]; exact ⟨h1, h2⟩) hnp

/-- on its domain the effect hands a struct with one value per link to `push`, `None` where the version lacks the link -/
theorem effToVal_strct (k : Nat) (f : Family) (P : Slots) (L : List (Nat × LinkKind)) (o : EffectObj)
    (hpl : slotsPlain L P = true) (h : EffDom k f P L o) :
    ∃ vals, effToVal k P o = .strct vals ∧ vals.length = L.length ∧ SkipNone L vals := by
  obtain ⟨⟨hn, hs⟩, _, _, _, hcan⟩ := h
  obtain ⟨slots, ⟨src, quantity, aaClass, aaQty, var⟩⟩ := o
  cases src
  · obtain ⟨h1, c, a, h2, h3, _, _⟩ := hcan
    simp only at h1 h2 h3
    subst h1 h2 h3
    exact ⟨_, rfl, by simpa using hn, skipNone_set_set L P slots _ _ hpl hs⟩
  · obtain ⟨h1, ⟨c, h2⟩, _, _⟩ := hcan
    simp only at h1 h2
    subst h1 h2
    exact ⟨_, rfl, by simpa using hn, skipNone_set_set L P slots _ _ hpl hs⟩
  · exact ⟨_, rfl, by simpa using hn, skipNone_set_set L P slots _ _ hpl hs⟩

/-- **the hook law of the armour/attack slice**, for every class table in which the effect class consists of plain links
(and links the version lacks) -/
theorem effect_law (k : Nat) (f : Family) (P : Slots) (hP : P.ok) (classes : List ClassSpec) (fuel cls : Nat) (hist : List Nat)
    (c : ClassSpec) (hc : classes[cls]? = some c) (hp : allPlainSkip c = true) (hpl : slotsPlain c.links P = true) :
    (effectHook k f P).LawOn (EffDom k f P c.links) classes (fuel + 1) cls hist := by
  intro o ho
  obtain ⟨vals, hv, hl, hs⟩ := effToVal_strct k f P _ o hpl ho
  refine ⟨?_, ?_⟩
  · show WF classes (fuel + 1) cls hist (effToVal k P o)
    rw [hv]; exact wf_plainSkip classes fuel cls hist c vals hc hp hl
  · show effOfVal k f P (normalize classes (fuel + 1) cls hist (effToVal k P o)) = some o
    rw [hv, normalize_plainSkip classes fuel cls hist c vals hc hp hl hs, ← hv]
    exact eff_of_to k f P _ o hP ho

/-- **set → save → load for armour/attack effects at the manager level**: an effect of the domain (any type/attribute,
any class, amount / variable within its `k` bits, any values of the other links) that is committed through the link engine
into any sections and constructed again from the result is the same effect - class, amount, variable, plain quantity and
every other link value included -/
theorem effect_roundtrip (k : Nat) (f : Family) (P : Slots) (hP : P.ok) (classes : List ClassSpec) (fuel cls : Nat)
    (hist : List Nat) (c : ClassSpec) (hc : classes[cls]? = some c) (hp : allPlainSkip c = true)
    (hpl : slotsPlain c.links P = true) (hsafe : tableSafe classes (fuel + 1) cls hist.length = true)
    (o : EffectObj) (ho : EffDom k f P c.links o) (s s' : Sections)
    (h : commitObj classes (fuel + 1) cls hist (effToVal k P o) s = .ok s') :
    (constructObj classes (fuel + 1) cls hist s').toOption.bind (effOfVal k f P) = some o :=
  manager_roundtrip_on (effectHook k f P) _ classes (fuel + 1) cls hist hsafe
    (effect_law k f P hP classes fuel cls hist c hc hp hpl) o ho s s' h

/-! ### effects inside triggers inside the manager: the slice law at full nesting -/

/-- the `i`-th object of the object list that link `j` of a struct holds -/
def childAt (v : Val) (j i : Nat) : Option Val :=
  match v with
  | .strct vals =>
    match vals[j]? with
    | some (.list os) => os[i]?
    | _ => none
  | _ => none

/-- what `construct` returns for a child object is the normalised child -/
theorem normalize_childAt (classes : List ClassSpec) (fuel cls : Nat) (hist : List Nat) (c : ClassSpec) (vals : List Val)
    (j i a ccls : Nat) (path : List PStep) (d : List Val) (nm : List Nat) (g : List (Nat × Aoe.Codec.Expr))
    (acts : List RefreshAct) (names : List Nat) (child : Val)
    (hc : classes[cls]? = some c) (hj : c.links[j]? = some (a, .objs path ccls d nm g acts names))
    (hch : childAt (.strct vals) j i = some child) :
    childAt (normalize classes (fuel + 1) cls hist (.strct vals)) j i =
      some (normalize classes fuel ccls (hist ++ [i]) child) := by
  simp only [childAt] at hch
  cases hv : vals[j]? with
  | none => simp [hv] at hch
  | some v =>
    rw [hv] at hch
    cases v with
    | list os =>
      simp only at hch
      have hz : (c.links.zip vals)[j]? = some ((a, .objs path ccls d nm g acts names), .list os) := by
        rw [List.getElem?_zip_eq_some]; exact ⟨hj, hv⟩
      simp only [normalize, hc, childAt, List.getElem?_map, hz, Option.map_some, normLink, List.getElem?_zipIdx, hch,
        Nat.zero_add]
    | _ => simp at hch

/-- **an armour/attack effect anywhere in the manager's object tree survives the save**: when the object that
`construct` returns for the manager is the normalised manager object (that is what `construct_after_commit` and
`construct_after_commitAll` establish), effect `j` of trigger `i` decodes to the effect that was handed over -/
theorem effect_in_manager (k : Nat) (f : Family) (P : Slots) (hP : P.ok) (classes : List ClassSpec) (fuel m : Nat)
    (cm ct ce : ClassSpec) (jt je at' ae nct nce : Nat)
    (patht pathe : List PStep) (dt de : List Val) (nmt nme : List Nat) (gt ge : List (Nat × Aoe.Codec.Expr))
    (actst actse : List RefreshAct) (namest namese : List Nat)
    (hm : classes[m]? = some cm) (hjt : cm.links[jt]? = some (at', .objs patht nct dt nmt gt actst namest))
    (hct : classes[nct]? = some ct) (hje : ct.links[je]? = some (ae, .objs pathe nce de nme ge actse namese))
    (hce : classes[nce]? = some ce) (hp : allPlainSkip ce = true) (hpl : slotsPlain ce.links P = true)
    (mvals tvals : List Val) (i j : Nat) (o : EffectObj)
    (hti : childAt (.strct mvals) jt i = some (.strct tvals))
    (hej : childAt (.strct tvals) je j = some (effToVal k P o)) (ho : EffDom k f P ce.links o) :
    ∃ t' e', childAt (normalize classes (fuel + 3) m [] (.strct mvals)) jt i = some t' ∧ childAt t' je j = some e' ∧
      effOfVal k f P e' = some o := by
  have h1 := normalize_childAt classes (fuel + 2) m [] cm mvals jt i at' nct patht dt nmt gt actst namest _ hm hjt hti
  have h2 := normalize_childAt classes (fuel + 1) nct ([] ++ [i]) ct tvals je j ae nce pathe de nme ge actse namese _ hct hje hej
  obtain ⟨vals, hv, hl, hs⟩ := effToVal_strct k f P _ o hpl ho
  refine ⟨_, _, h1, h2, ?_⟩
  rw [hv, normalize_plainSkip classes fuel nce _ ce vals hce hp hl hs, ← hv]
  exact eff_of_to k f P _ o hP ho

/-! non-vacuity: a four-link effect class over one record, a quantity-based effect with class 3 and amount 5 -/
def demoEffClasses : List ClassSpec :=
  [{ name := 0, links := [
      (0, .plain [.fld 0, .fld 0] [] [10, 11, 12, 13]),
      (1, .plain [.fld 0, .fld 1] [] [10, 11, 12, 13]),
      (2, .plain [.fld 0, .fld 2] [] [10, 11, 12, 13]),
      (3, .plain [.fld 0, .fld 3] [] [10, 11, 12, 13])] }]
def demoFamily : Family := { aaEffects := [28, 31], partialQ := [52], partialV := [81, 82], aaAttrs := [8, 9] }
def demoSlots : Slots := { it := 0, ia := 1, iq := 2, iv := 3 }
def demoEffect : EffectObj := { slots := [.int 28, .none, .none, .none], e := ofPair 3 5 (-1) }
def demoEffSecs : Sections := { names := [], recs := [.strct [.int 0, .int 0, .int 0, .int 0]] }

example : demoSlots.ok := by decide
example : allPlainSkip demoEffClasses[0] = true := by decide
example : slotsPlain demoEffClasses[0].links demoSlots = true := by decide
example : tableSafe demoEffClasses 1 0 0 = true := by decide
example : EffDom 16 demoFamily demoSlots demoEffClasses[0].links demoEffect := by
  refine ⟨⟨rfl, by intro lv hlv; simp [demoEffClasses, demoEffect] at hlv; rcases hlv with rfl | rfl | rfl | rfl <;> simp [isPlain]⟩, rfl, rfl, ⟨some 28, none, rfl, rfl, by decide⟩, ?_⟩
  exact ⟨rfl, 3, 5, rfl, rfl, by decide, by decide⟩
example : effToVal 16 demoSlots demoEffect = .strct [.int 28, .none, .int 196613, .int (-1)] := by rfl
example : ∃ s', commitObj demoEffClasses 1 0 [] (effToVal 16 demoSlots demoEffect) demoEffSecs = .ok s' := ⟨_, rfl⟩
/-- the demo effect, saved and re-loaded through the engine, is the demo effect (`effect_roundtrip` applied) -/
example (s' : Sections) (h : commitObj demoEffClasses 1 0 [] (effToVal 16 demoSlots demoEffect) demoEffSecs = .ok s') :
    (constructObj demoEffClasses 1 0 [] s').toOption.bind (effOfVal 16 demoFamily demoSlots) = some demoEffect :=
  effect_roundtrip 16 demoFamily demoSlots (by decide) demoEffClasses 0 0 [] demoEffClasses[0] rfl (by decide) (by decide)
    (by decide) demoEffect
    (by
      refine ⟨⟨rfl, by intro lv hlv; simp [demoEffClasses, demoEffect] at hlv; rcases hlv with rfl | rfl | rfl | rfl <;> simp [isPlain]⟩, rfl, rfl,
        ⟨some 28, none, rfl, rfl, by decide⟩, ?_⟩
      exact ⟨rfl, 3, 5, rfl, rfl, by decide, by decide⟩)
    demoEffSecs s' h

/-! ### the per-player lists of `PlayerManager` -/
section players
open Aoe.Players

theorem playerList_length (g : Option Bool) : (playerList g).length = (if g = none then 8 else 9) := by
  rcases g with _ | _ | _ <;> rfl

/-- the list handed to `push` has the players' entries followed by `fill_empty` defaults: 8 + 8 or 9 + 7 = 16 for every
use in `PlayerManager` -/
theorem attrsToList_length (g : Option Bool) (d : Int) (fill : Nat) (attr : Nat → Option Int) :
    (attrsToList g d fill attr).length = (if g = none then 8 else 9) + fill := by
  simp [attrsToList, playerList_length]

/-- **save → load of a per-player list**: every player of the list receives from the re-loaded list exactly the value it
contributed (its attribute; the default where the attribute was `None` in a list without GAIA) -/
theorem spread_attrsToList (g : Option Bool) (d : Int) (fill : Nat) (attr : Nat → Option Int) (p : Nat)
    (hp : p ∈ playerList g) : spread g (attrsToList g d fill attr) p = some (norm g d (attr p)) := by
  rcases g with _ | _ | _ <;>
    simp only [playerList, List.mem_cons, List.not_mem_nil, or_false] at hp <;>
    rcases hp with rfl | rfl | rfl | rfl | rfl | rfl | rfl | rfl | rfl <;> rfl

/-- GAIA is not part of the lists without GAIA: nothing is saved for it, a re-load leaves the constructor default -/
theorem spread_no_gaia (lst : List (Option Int)) : spread none lst 0 = none := by rfl

/-- the tail of the saved list is the default, whatever the players hold (so an unedited file whose tail differs from the
default is rewritten with the default there - the model's statement of the `Stable` side condition of C01) -/
theorem attrsToList_tail (g : Option Bool) (d : Int) (fill : Nat) (attr : Nat → Option Int) (i : Nat) (hi : i < fill) :
    (attrsToList g d fill attr)[(if g = none then 8 else 9) + i]? = some (some d) := by
  simp only [attrsToList]
  rw [List.getElem?_append_right (by simp [playerList_length])]
  simp [playerList_length, hi]

theorem spread_at (g : Option Bool) (lst : List (Option Int)) (t : Nat) (ht : t < (if g = none then 8 else 9)) :
    ∃ p, (playerList g)[t]? = some p ∧ spread g lst p = lst[t]? := by
  rcases g with _ | _ | _
  · simp only [if_true] at ht
    have : t = 0 ∨ t = 1 ∨ t = 2 ∨ t = 3 ∨ t = 4 ∨ t = 5 ∨ t = 6 ∨ t = 7 := by omega
    rcases this with rfl | rfl | rfl | rfl | rfl | rfl | rfl | rfl <;> exact ⟨_, rfl, rfl⟩
  all_goals
    simp only [reduceCtorEq, if_false] at ht
    have : t = 0 ∨ t = 1 ∨ t = 2 ∨ t = 3 ∨ t = 4 ∨ t = 5 ∨ t = 6 ∨ t = 7 ∨ t = 8 := by omega
    rcases this with rfl | rfl | rfl | rfl | rfl | rfl | rfl | rfl | rfl <;> exact ⟨_, rfl, rfl⟩

/-- **load → save of a per-player list** (C01): a pulled list whose tail already is the default and (for the lists
without GAIA) holds no `None` is handed back to `push` unchanged -/
theorem attrsToList_spread (g : Option Bool) (d : Int) (lst : List (Option Int)) (fill : Nat)
    (hl : lst.length = (if g = none then 8 else 9) + fill)
    (htail : ∀ i, i < fill → lst[(if g = none then 8 else 9) + i]? = some (some d))
    (hnone : g = none → ∀ v ∈ lst, v ≠ none) :
    attrsToList g d fill (fun p => (spread g lst p).getD none) = lst := by
  apply List.ext_getElem?
  intro t
  by_cases ht : t < (if g = none then 8 else 9)
  · -- a player's entry
    have hlt : t < lst.length := by omega
    have hv : lst[t]? = some lst[t] := List.getElem?_eq_getElem hlt
    have hmem : lst[t] ∈ lst := List.getElem_mem hlt
    obtain ⟨p, hp, hs⟩ := spread_at g lst t ht
    simp only [attrsToList]
    rw [List.getElem?_append_left (by simpa [playerList_length] using ht), List.getElem?_map, hp]
    simp only [Option.map_some, hs, hv, Option.getD_some]
    congr 1
    generalize lst[t] = x at hmem
    cases x with
    | some v => cases g <;> rfl
    | none =>
      cases g with
      | none => exact absurd rfl (hnone rfl _ hmem)
      | some b => rfl
  · -- the default tail
    by_cases ht2 : t < lst.length
    · obtain ⟨i, rfl⟩ : ∃ i, t = (if g = none then 8 else 9) + i := ⟨t - (if g = none then 8 else 9), by omega⟩
      have hi : i < fill := by omega
      rw [attrsToList_tail g d fill _ i hi, htail i hi]
    · rw [List.getElem?_eq_none (by rw [attrsToList_length]; omega), List.getElem?_eq_none (by omega)]

example : attrsToList none 200 8 (fun p => if p = 3 then none else some (Int.ofNat p)) =
    [some 1, some 2, some 200, some 4, some 5, some 6, some 7, some 8,
     some 200, some 200, some 200, some 200, some 200, some 200, some 200, some 200] := by decide
example : spread (some false) [some 1, some 2, some 3, some 4, some 5, some 6, some 7, some 8, some 0] 0 = some (some 0) := by decide

end players

/-! ### flags the managers expose as `bool` (`OptionManager`: `bool(lock_teams)` …) -/

/-- what a `bool` attribute hands to `push` (Python writes `True` as 1) and what `bool(pulled)` makes of a stored byte -/
def flagToVal (b : Bool) : Val := .int (if b then 1 else 0)
def flagOfVal : Val → Option Bool
  | .int i => some (i != 0)
  | _ => none

/-- set → save → load of a flag -/
theorem flag_of_to (b : Bool) : flagOfVal (flagToVal b) = some b := by cases b <;> rfl

/-- load → save of a flag hands back the stored byte exactly when that byte is 0 or 1: any other value is canonicalised
to 1 (the files C01 quantifies over hold 0 / 1 there) -/
theorem flag_to_of (i : Int) : (flagOfVal (.int i)).map flagToVal = some (.int i) ↔ (i = 0 ∨ i = 1) := by
  simp only [flagOfVal, Option.map_some, flagToVal, Option.some.injEq]
  by_cases h : i = 0
  · subst h; simp
  · have : (i != 0) = true := by simpa using h
    rw [this]
    simp only [if_true]
    constructor
    · intro e; injection e with e; exact Or.inr e.symm
    · rintro (e | e)
      · exact absurd e h
      · rw [e]

example : (flagOfVal (.int 2)).map flagToVal = some (.int 1) := by rfl

end Aoe.Props.Hooks
