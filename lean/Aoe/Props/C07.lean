import Aoe.Lemmas.TrigStep
/-!
# C07 – reordering operations perform exactly the documented permutation

Model: `Aoe.Model.Trig` (see `Props/C06.lean` for the vocabulary: `Inv`, `uidAt`, `displayOrder`, `uids`).
Lists of identities are compared through `List.map some … = List.map (uidAt tm) …`, i.e. "position `j` of the new list
holds the trigger that was at old position `l[j]`", with no default values involved.
-/
namespace Aoe.Props.C07
open Aoe.Trig List

/-! ## order arrays: `update_order_array` -/

/-- `update_order_array` never raises on a permutation and returns a permutation of the requested length -/
theorem update_order_perm {o : List Nat} {m : Nat} (h : o.Perm (range m)) (n : Nat) :
    ∃ o', updateOrderArray o n = .ok o' ∧ o'.Perm (range n) := by
  obtain ⟨o', h1, h2, _⟩ := updateOrderArray_isPerm (isPerm_iff_perm.2 h) n
  exact ⟨o', h1, isPerm_iff_perm.1 h2⟩

/-! ## move_triggers -/

/-- **move_spec**: for every invariant state, every duplicate-free list of existing ids and every insert position `k`
(also beyond the end), `move_triggers(ids, k)` succeeds and the new trigger list is:
what was displayed before position `k` minus `ids`, then `ids` in the order given, then what was displayed from
position `k` on minus `ids` – the moved triggers are contiguous, in the given order, at the requested display
position, all others keep their relative order. The new display order is the identity (display sequence = list). -/
theorem move_spec {tm : TM} (hi : Inv tm) {ids : List Nat} (hne : ids ≠ []) (hnd : ids.Nodup)
    (hlt : ∀ i ∈ ids, i < tm.trigs.length) (k : Nat) :
    ∃ D tm', displayOrder tm = .ok D ∧ move tm ids k = .ok tm' ∧
      (uids tm').map some =
        ((D.take k).filter (fun n => !ids.contains n) ++ ids ++ (D.drop k).filter (fun n => !ids.contains n)).map (uidAt tm) ∧
      displayOrder tm' = .ok (range tm'.trigs.length) ∧ tm'.trigs.length = tm.trigs.length ∧ Inv tm' := by
  obtain ⟨D, tm', h1, _, h3, g, _, h5, h6, h7⟩ := Aoe.Trig.move_spec (c := false) hi hne hnd hlt k
  refine ⟨D, tm', h1, h3, h7, ?_, h6, g.inv⟩
  have hp : IsPerm tm'.order tm'.trigs.length := by rw [h5, h6]; exact isPerm_range _
  simp [displayOrder, readOrder_perm hp, Except.map, h5, h6]

/-- beyond the end the moved triggers are appended -/
theorem move_beyond_end {tm : TM} (hi : Inv tm) {ids : List Nat} (hne : ids ≠ []) (hnd : ids.Nodup)
    (hlt : ∀ i ∈ ids, i < tm.trigs.length) {k : Nat} (hk : tm.trigs.length ≤ k) :
    ∃ D tm', displayOrder tm = .ok D ∧ move tm ids k = .ok tm' ∧
      (uids tm').map some = (D.filter (fun n => !ids.contains n) ++ ids).map (uidAt tm) := by
  obtain ⟨D, tm', h1, hp, h3, _, _, _, _, h7⟩ := Aoe.Trig.move_spec (c := false) hi hne hnd hlt k
  refine ⟨D, tm', h1, h3, ?_⟩
  rw [h7]
  have hl : D.length ≤ k := by rw [hp.length]; exact hk
  simp [moveSpec, take_of_length_le hl, drop_of_length_le hl]

/-! ## reorder_triggers -/

/-- **reorder_spec**: `reorder_triggers(o)` with a permutation `o` of all ids yields exactly the requested order:
new position `j` holds the trigger that had id `o[j]`; the display order is reset to the identity -/
theorem reorder_spec {tm : TM} (hi : Inv tm) {o : List Nat} (ho : o.Perm (range tm.trigs.length)) (hne : o ≠ []) :
    ∃ tm', reorder tm (some o) = .ok tm' ∧ (uids tm').map some = o.map (uidAt tm) ∧
      tm'.order = range tm.trigs.length ∧ tm'.trigs.length = tm.trigs.length ∧ Inv tm' := by
  obtain ⟨tm', h1, h2, _, _, h5, h6, h7⟩ := reorder_some_spec (c := false) hi (isPerm_iff_perm.2 ho) hne
  exact ⟨tm', h1, h7, h5, h6, h2⟩

/-- without argument the execution order becomes the current display order -/
theorem reorder_none_spec {tm : TM} (hi : Inv tm) :
    ∃ D tm', displayOrder tm = .ok D ∧ reorder tm none = .ok tm' ∧ (uids tm').map some = D.map (uidAt tm) ∧
      tm'.order = range tm.trigs.length := by
  obtain ⟨tm1, h1, g1, ht1, _, hp1, _, _⟩ := readOrder_good (c := false) hi
  obtain ⟨tm2, h2, _, _, _, o2, _, u2⟩ := reorderCore_spec (c := false) g1.inv (ht1 ▸ hp1)
  have hsame : reorderCore tm = reorderCore tm1 := by
    unfold reorderCore
    rw [h1, readOrder_idem hi h1]
  refine ⟨tm1.order, tm2, by simp [displayOrder, h1, Except.map], by simp [reorder, hsame, h2], ?_, by rw [o2, ht1]⟩
  rw [u2]
  have : uidAt tm1 = uidAt tm := by funext i; simp [uidAt, ht1]
  rw [this]

/-! ## remove_triggers -/

/-- **remove_spec**: for selections that designate distinct triggers (`ids` = their ids), `remove_triggers` deletes
exactly those triggers (`tid = position` under the invariant), the rest keep their relative execution order **and**
their relative display order; the new display order is again a permutation. Holds for the pinned and the repaired
code alike (the two differ only in the links, see C06). -/
theorem remove_spec {fixed : Bool} {tm tm' : TM} {sels : List Sel} (hi : Inv tm)
    (hdom : ∀ tm1 ids, resolveAll tm sels = .ok (tm1, ids) → ids.Nodup)
    (h : remove fixed tm sels = .ok tm') :
    ∃ tm1 ids D, resolveAll tm sels = .ok (tm1, ids) ∧ displayOrder tm = .ok D ∧
      uids tm' = (tm.trigs.filter (fun t => !ids.contains t.tid)).map (·.uid) ∧
      tm'.order.map (uidAt tm') = (D.filter (fun i => !ids.contains i)).map (uidAt tm) ∧
      tm'.order.Perm (range tm'.trigs.length) ∧ Inv tm' := by
  obtain ⟨tm1, ids, D, h1, h2, _, g, _, h5, h6, h7⟩ := Aoe.Trig.remove_spec (c := false) hi (fun h => by cases h) hdom h
  exact ⟨tm1, ids, D, h1, h2, h5, h6, isPerm_iff_perm.1 h7, g.inv⟩

/-! ## selecting a trigger -/

/-- **resolve_agree**: on an invariant state the three ways of selecting trigger `i` – by index, by its display index,
by the object itself – return the same `(trigger_index, display_index, trigger)` triple -/
theorem resolve_agree {tm : TM} (hi : Inv tm) {i : Nat} (hlt : i < tm.trigs.length) :
    ∃ D tm1, displayOrder tm = .ok D ∧ i ∈ D ∧
      resolve tm (.index i) = .ok (tm1, some ⟨i, D.idxOf i, tm.trigs[i]⟩) ∧
      resolve tm (.display (D.idxOf i)) = .ok (tm1, some ⟨i, D.idxOf i, tm.trigs[i]⟩) ∧
      resolve tm (.obj i) = .ok (tm1, some ⟨i, D.idxOf i, tm.trigs[i]⟩) := by
  obtain ⟨o, h1, h2, _⟩ := readOrder_inv hi
  have hmem : i ∈ o := (h2.2 i).2 hlt
  have hidx : o.idxOf i < o.length := idxOf_lt_length_of_mem hmem
  have hget : o[o.idxOf i] = i := getElem_idxOf hidx
  have htid : tm.trigs[i].tid = i := hi.ids i _ (getElem?_eq_getElem hlt)
  refine ⟨o, { tm with order := o, hashed := uids tm }, by simp [displayOrder, h1, Except.map], hmem, ?_, ?_, ?_⟩
  · have : ¬ ((i : Int) < 0) := by omega
    simp [resolve, this, getElem?_eq_getElem hlt, h1, indexOf, hmem]
  · simp [resolve, h1, getElem?_eq_getElem hidx, hget, getElem?_eq_getElem hlt]
  · simp [resolve, getElem?_eq_getElem hlt, resolveObj, h1, indexOf, htid, hmem]

/-! ## condition / effect order arrays under additions and removals -/

/-- invariant of one component list: the stored order array is a permutation for the list as of the last hashing -/
def OAInv (a : OA) : Prop := IsPerm a.order a.hashed.length

/-- additions, removals (by index, display index, object) and reads are always in the domain; an order array assigned
by the user must be a permutation for the list as the getter last saw it (i.e. assigned right after reading it) -/
def OADom (a : OA) : OAOp → Prop
  | .setOrder o => IsPerm o a.hashed.length
  | _ => True

theorem oa_read {a : OA} (h : OAInv a) :
    ∃ o, a.read = .ok { a with order := o, hashed := a.items } ∧ IsPerm o a.items.length := by
  unfold OA.read
  by_cases hh : a.hashed = a.items
  · refine ⟨a.order, ?_, hh ▸ h⟩
    have : ({ a with order := a.order, hashed := a.items } : OA) = a := by
      cases a with
      | mk it o h n => simp only at hh; subst hh; rfl
    rw [this, if_pos hh]
  · obtain ⟨o', ho', hp, _⟩ := updateOrderArray_isPerm h a.items.length
    exact ⟨o', by simp [hh, ho'], hp⟩

theorem oa_step_inv {a a' : OA} {op : OAOp} (h : OAInv a) (hd : OADom a op) (hs : a.step op = .ok a') : OAInv a' := by
  cases op with
  | append => simp only [OA.step, Except.ok.injEq] at hs; subst hs; exact h
  | removeAt i =>
    simp only [OA.step, OA.removeAt] at hs
    split at hs
    · cases hs; exact h
    · cases hs
  | removeDisplay d =>
    simp only [OA.step, OA.removeDisplay] at hs
    obtain ⟨o, hr, hp⟩ := oa_read h
    rw [hr] at hs
    simp only at hs
    cases hg : o[d]? with
    | none => simp [hg] at hs
    | some i =>
      simp only [hg, OA.removeAt] at hs
      split at hs
      · cases hs; exact hp
      · cases hs
  | removeObj p =>
    simp only [OA.step, OA.removeObj] at hs
    cases hg : a.items[p]? with
    | none => simp [hg] at hs
    | some u =>
      simp only [hg, OA.removeAt] at hs
      split at hs
      · cases hs; exact h
      · cases hs
  | read =>
    simp only [OA.step] at hs
    obtain ⟨o, hr, hp⟩ := oa_read h
    rw [hr] at hs; cases hs; exact hp
  | setOrder o => simp only [OA.step, Except.ok.injEq] at hs; subst hs; exact hd

/-- a history of component-list operations that did not raise -/
inductive OAHist : OA → List OAOp → OA → Prop
  | nil (a : OA) : OAHist a [] a
  | cons {a a1 a' : OA} {op : OAOp} {ops : List OAOp} : OADom a op → a.step op = .ok a1 → OAHist a1 ops a' → OAHist a (op :: ops) a'

/-- **order arrays stay permutations**: after any sequence of additions, removals and reads (starting from the empty
list or any state whose order array is a permutation) the order array the API shows is a permutation of the indices of
the current component list -/
theorem order_arrays_stay_permutations {a a' : OA} {ops : List OAOp} (h : OAInv a) (hh : OAHist a ops a') :
    ∃ a'', a'.read = .ok a'' ∧ a''.items = a'.items ∧ a''.order.Perm (range a'.items.length) := by
  induction hh with
  | nil a =>
    obtain ⟨o, hr, hp⟩ := oa_read h
    exact ⟨_, hr, rfl, isPerm_iff_perm.1 hp⟩
  | cons hd hs _ ih => exact ih (oa_step_inv h hd hs)

theorem oaInv_empty : OAInv OA.empty := ⟨by simp [OA.empty], by simp [OA.empty]⟩

/-! ## non-vacuity -/

/-- an invariant state with a non-identity display order -/
def st : TM := ⟨[⟨0, 0, [⟨.act, some 2⟩]⟩, ⟨1, 1, []⟩, ⟨2, 2, [⟨.deact, some 0⟩]⟩, ⟨3, 3, []⟩], [3, 1, 0, 2], [0, 1, 2, 3], 4⟩

theorem inv_st : Inv st :=
  { ids := fun i t h => by
      match i, h with
      | 0, h => simp [st] at h; subst h; rfl
      | 1, h => simp [st] at h; subst h; rfl
      | 2, h => simp [st] at h; subst h; rfl
      | 3, h => simp [st] at h; subst h; rfl
      | n + 4, h => simp [st] at h
    order := ⟨4, ⟨by decide, fun i => by simp [st]; omega⟩, fun _ => rfl⟩
    uniq := by decide
    fresh := by decide
    hfresh := by decide }

/-- `move_triggers([2, 3], 1)` on `st` (displayed 3,1,0,2): result 1, 2, 3, 0 … as the specification says: the part
displayed before position 1 without the moved ids is empty, then 2, 3, then 1, 0 -/
example : (move st [2, 3] 1).map (fun t => t.trigs.map (·.uid)) = .ok [2, 3, 1, 0] := rfl

example : ((displayOrder st).map fun D => (D.take 1).filter (fun n => ![2, 3].contains n) ++ [2, 3] ++
    (D.drop 1).filter (fun n => ![2, 3].contains n)) = .ok [2, 3, 1, 0] := rfl

example : (remove false st [.display 0, .index 0]).map (fun t => (t.trigs.map (·.uid), t.order)) = .ok ([1, 2], [0, 1]) := rfl

/-- an order-array history: three additions, a user-assigned order, removal by display index, an addition -/
example : ∃ a', OAHist OA.empty [.append, .append, .append, .read, .setOrder [2, 0, 1], .removeDisplay 0, .append] a' := by
  refine ⟨_, .cons trivial rfl (.cons trivial rfl (.cons trivial rfl (.cons trivial rfl (.cons ?_ rfl (.cons trivial rfl (.cons trivial rfl (.nil _)))))))⟩
  show IsPerm [2, 0, 1] 3
  exact ⟨by decide, fun i => by simp; omega⟩

end Aoe.Props.C07
