import Aoe.Props.CommitHolds
/-!
# Stored counts at every nesting depth (C04)

`Counts classes fuel cls hist obj t`: in the tree `t`, for every object-list link of the object (and, recursively, of its
child objects) whose refresh is the usual `count := len(list)`, the count retriever holds the number of objects of that
list - provided the static guard `countGuard` of that link holds (no other link of the class writes the count retriever
itself; it fails e.g. for `_PlayerUnits.unit_count`, which is a link of its own and is therefore not claimed).

`commit_counts`: a successful commit establishes `Counts` (for class tables that pass `tableSafe` and have pairwise
different link names per class, `namesOk`).  Together with `commit_holds` (one record per object, at every depth): after a
commit every counted struct list of the object tree is stored with a count that equals its number of records.
-/
namespace Aoe.Props.CommitCounts
open Aoe Aoe.Codec Aoe.Lens Aoe.Commit Aoe.Props.Links Aoe.Props.CommitFrame Aoe.Props.CommitHolds
open Aoe.Props.C05 (Diverge frame get_set)

/-- no OTHER link of the class (by name) writes anything at or below the count retriever `cp` -/
def countGuard (classes : List ClassSpec) (fuel k : Nat) (L : List (Nat × LinkKind)) (name : Nat) (cp : List PStep) : Bool :=
  L.all (fun l => l.1 == name || linkAway classes fuel k cp l.2)

/-- the refresh of a counted list: the FIRST action is `count := len(list)` on a field of the same record; further actions
(copies of the count in other sections, …) may follow -/
def headLen : List RefreshAct → Option (Nat × Nat × List RefreshAct)
  | { dest := .self ci, expr := .len (.ref (.self nm)) } :: rest => some (ci, nm, rest)
  | _ => none

theorem headLen_some (acts : List RefreshAct) (ci nm : Nat) (rest : List RefreshAct) (h : headLen acts = some (ci, nm, rest)) :
    acts = { dest := .self ci, expr := .len (.ref (.self nm)) } :: rest := by
  unfold headLen at h
  split at h
  · simp only [Option.some.injEq, Prod.mk.injEq] at h
    obtain ⟨rfl, rfl, rfl⟩ := h; rfl
  · cases h

/-- the further refresh actions of the link do not write the count retriever again -/
def restAway (path : List PStep) (ci : Nat) (rest : List RefreshAct) : Bool :=
  rest.all (fun r => PDiverge (destPPath path r.dest) (destPPath path (.self ci)))

theorem foldlM_cons_split {α : Type} (f : Sections → α → Except Err Sections) (a : α) (rest : List α) (s : Sections) :
    (a :: rest).foldlM f s = ([a].foldlM f s >>= fun s3 => rest.foldlM f s3) := by
  simp only [List.foldlM_cons, List.foldlM_nil, bind_pure]

theorem applyActs_cons (a : RefreshAct) (rest : List RefreshAct) (rp : List Step) (names : List Nat) (s : Sections) :
    applyActs (a :: rest) rp names s = (applyActs [a] rp names s >>= fun s3 => applyActs rest rp names s3) := by
  unfold applyActs
  exact foldlM_cons_split _ a rest s

/-- `pushLink_objs_count` for a refresh list whose first action is the count -/
theorem pushLink_objs_count_head (rc : Nat → List Nat → Val → Sections → Except Err Sections)
    (F : Nat → List Nat → Val → List (List Step)) (hist : List Nat)
    (s s' : Sections) (a : Nat) (path : List PStep) (ccls : Nat) (defaults : List Val) (childNames : List Nat)
    (guards : List (Nat × Expr)) (names : List Nat) (os : List Val) (p : List Step) (ci nm jj : Nat) (rest : List RefreshAct)
    (hp : resolve hist path = some p) (hlast : path.getLast? = some (PStep.fld jj)) (hfirst : firstAt names nm jj = true)
    (hrest : restAway path ci rest = true)
    (hrc : ∀ h o t t', rc ccls h o t = .ok t' → AllPres (ListLen p os.length) (F ccls h o) →
      ListLen p os.length t.root → ListLen p os.length t'.root)
    (hch : ∀ oi ∈ os.zipIdx, AllPres (ListLen p os.length) (F ccls (hist ++ [oi.2]) oi.1))
    (h : pushLink rc hist s ((a, .objs path ccls defaults childNames guards
            ({ dest := .self ci, expr := .len (.ref (.self nm)) } :: rest) names), .list os) = .ok s') :
    getAt (dropLastStep p ++ [Step.fld ci]) s'.root = some (.int os.length) := by
  obtain ⟨p', old, dflt, s1, s2, hr, hg, hw, hf, ha⟩ :=
    pushLink_objs_steps rc hist s s' a path ccls defaults childNames guards _ names os h
  rw [hp] at hr; cases hr
  have h1 : ListLen p os.length s1.root := by
    cases hs : setAt p s.root (.list (resizeList old os.length dflt)) with
    | none => simp [hs, Option.bind] at hw
    | some r =>
      simp only [hs, Option.bind] at hw
      rw [(withRoot_some s s1 r hw).1]
      exact ⟨_, get_set p s.root _ r hs, resizeList_length old os.length dflt⟩
  have h2 : ListLen p os.length s2.root := by
    refine foldlM_inv (ListLen p os.length) _ (os.zipIdx) ?_ s1 s2 hf h1
    intro oi hoi t t' ht hQt
    exact hrc (hist ++ [oi.2]) oi.1 t t' ht (hch oi hoi) hQt
  obtain ⟨l, hl, hlen⟩ := h2
  rw [resolve_last_fld hist path p jj hp hlast] at hl
  obtain ⟨vs, hrec, hvj⟩ := getAt_append_fld _ jj _ _ hl
  have hlook : (s2.env names (.strct vs)).lookup (.self nm) = .ok (.list l) := by
    simp only [Env.lookup, Sections.env, zip_get_firstAt names vs nm jj _ hfirst hvj]
  -- the first action, then the others
  have hsplit := applyActs_cons { dest := .self ci, expr := .len (.ref (.self nm)) } rest (dropLastStep p) names s2
  rw [hsplit] at ha
  simp only [bind, Except.bind] at ha
  cases h3 : applyActs [{ dest := .self ci, expr := .len (.ref (.self nm)) }] (dropLastStep p) names s2 with
  | error e => rw [h3] at ha; cases ha
  | ok s3 =>
    rw [h3] at ha
    have hc3 := count_equals_length ci nm (dropLastStep p) names s2 s3 (.strct vs) l hrec hlook h3
    rw [hlen] at hc3
    have hcp : resolve hist (destPPath path (.self ci)) = some (dropLastStep p ++ [Step.fld ci]) := by
      have := resolve_dest hist path p (.self ci) hp
      simpa [Dest.path] using this
    refine applyActs_inv (fun t => getAt (dropLastStep p ++ [Step.fld ci]) t = some (.int os.length)) rest (dropLastStep p) names
      ?_ s3 s' ha hc3
    intro r hr
    exact pres_of_diverge _ _ _ (resolve_diverge hist _ _ _ _ (resolve_dest hist path p r.dest hp) hcp
      (List.all_eq_true.mp hrest r hr))

/-- the count fact of one (link, value) pair -/
def countFact (classes : List ClassSpec) (fuel : Nat) (L : List (Nat × LinkKind)) (hist : List Nat)
    (lv : (Nat × LinkKind) × Val) (t : Val) : Prop :=
  match lv.1.2, lv.2 with
  | .objs path _ _ _ _ acts names, .list os =>
    ∀ ci nm jj rest, headLen acts = some (ci, nm, rest) → restAway path ci rest = true →
      path.getLast? = some (PStep.fld jj) → firstAt names nm jj = true →
      countGuard classes fuel hist.length L lv.1.1 (destPPath path (.self ci)) = true →
      ∀ p, resolve hist path = some p → getAt (dropLastStep p ++ [Step.fld ci]) t = some (.int os.length)
  | _, _ => True

/-- the children of one (link, value) pair satisfy `C` -/
def kidsFact (C : Nat → List Nat → Val → Val → Prop) (hist : List Nat) (lv : (Nat × LinkKind) × Val) (t : Val) : Prop :=
  match lv.1.2, lv.2 with
  | .objs path ccls _ _ _ _ _, .list os =>
    ∀ p, resolve hist path = some p → ∀ oi ∈ os.zipIdx, C ccls (hist ++ [oi.2]) oi.1 t
  | _, _ => True

def Counts (classes : List ClassSpec) : Nat → Nat → List Nat → Val → Val → Prop
  | 0, _, _, _, _ => True
  | fuel + 1, cls, hist, obj, t =>
    match classes[cls]?, obj with
    | some c, .strct vals =>
      ∀ lv ∈ c.links.zip vals, countFact classes fuel c.links hist lv t ∧ kidsFact (Counts classes fuel) hist lv t
    | _, _ => True

/-- the link names of every class of the tree are pairwise different -/
def namesOk (classes : List ClassSpec) : Nat → Nat → Bool
  | 0, _ => true
  | fuel + 1, cls =>
    match classes[cls]? with
    | none => true
    | some c => decide ((c.links.map (·.1)).Nodup) &&
        c.links.all (fun l => match l.2 with | .objs _ ccls _ _ _ _ _ => namesOk classes fuel ccls | _ => true)

/-! ### preservation -/

/-- a write that stays away from the record of a child object keeps the counts of that child -/
theorem counts_pres (classes : List ClassSpec) (fuel : Nat) :
    ∀ (cls : Nat) (pp : List PStep) (hist : List Nat) (i : Nat) (obj : Val) (p w : List Step),
      resolve hist pp = some p → wellNested classes fuel cls pp hist.length = true → Away (p ++ [Step.idx i]) w →
      Pres (Counts classes fuel cls (hist ++ [i]) obj) w := by
  induction fuel with
  | zero => intro cls pp hist i obj p w _ _ _ t x t' _ _; simp [Counts]
  | succ fuel ih =>
    intro cls pp hist i obj p w hp hwn haw t x t' hs hH
    simp only [Counts] at hH ⊢
    cases hc : classes[cls]? with
    | none => simp
    | some c =>
      cases obj with
      | strct vals =>
        simp only [hc] at hH ⊢
        intro lv hlv
        have hl := hH lv hlv
        simp only [wellNested, hc, List.all_eq_true] at hwn
        have hwl := hwn lv.1 (List.of_mem_zip hlv).1
        obtain ⟨⟨a, k⟩, v⟩ := lv
        cases k with
        | hist n => exact ⟨by simp [countFact], by simp [kidsFact]⟩
        | skip => exact ⟨by simp [countFact], by simp [kidsFact]⟩
        | plain path acts names => exact ⟨by simp [countFact], by simp [kidsFact]⟩
        | objs path ccls defaults childNames guards acts names =>
          simp only [Bool.and_eq_true] at hwl
          obtain ⟨⟨hpb, _⟩, hnest⟩ := hwl
          cases v with
          | list os =>
            refine ⟨?_, ?_⟩
            · -- the count retriever lies in the child's record, below `p ++ [idx i]`
              have hcf := hl.1
              simp only [countFact] at hcf ⊢
              intro ci nm jj rest hsl hra hlast hfirst hguard q hq
              have hfact := hcf ci nm jj rest hsl hra hlast hfirst hguard q hq
              obtain ⟨r, hrne, rfl⟩ := resolve_child hist i pp path p hp hpb q hq
              obtain ⟨r2, hr2⟩ := dropLast_below p i r hrne (Step.fld ci)
              rw [hr2] at hfact ⊢
              have hd : Diverge w (p ++ Step.idx i :: r2) := by
                have := haw r2; simpa using this
              exact pres_of_diverge _ w _ hd t x t' hs hfact
            · have hkf := hl.2
              simp only [kidsFact] at hkf ⊢
              intro q hq oi hoi
              obtain ⟨r, _, rfl⟩ := resolve_child hist i pp path p hp hpb q hq
              have hlen' : (hist ++ [i]).length = hist.length + 1 := by simp
              refine ih ccls path (hist ++ [i]) oi.2 oi.1 (p ++ Step.idx i :: r) w hq (by rw [hlen']; exact hnest) ?_ t x t' hs
                (hkf _ hq oi hoi)
              have : p ++ Step.idx i :: r = (p ++ [Step.idx i]) ++ r := by simp
              rw [this, List.append_assoc]
              exact away_append (p ++ [Step.idx i]) (r ++ [Step.idx oi.2]) w haw
          | _ => exact ⟨by simp [countFact], by simp [kidsFact]⟩
      | _ => simp

/-! ### the push of an object-list link establishes its count fact and the counts of its children -/

theorem pushLink_objs_counts (classes : List ClassSpec) (fuel : Nat) (L : List (Nat × LinkKind)) (hist : List Nat)
    (s s' : Sections) (a : Nat) (path : List PStep) (ccls : Nat) (defaults : List Val) (childNames : List Nat)
    (guards : List (Nat × Expr)) (acts : List RefreshAct) (names : List Nat) (os : List Val)
    (hnest : wellNested classes fuel ccls path hist.length = true)
    (hown : acts.all (fun x => PDiverge (destPPath path x.dest) path) = true)
    (hchild : ∀ i o t t', commitObj classes fuel ccls (hist ++ [i]) o t = .ok t' →
      Counts classes fuel ccls (hist ++ [i]) o t'.root)
    (h : pushLink (commitObj classes fuel) hist s
          ((a, .objs path ccls defaults childNames guards acts names), .list os) = .ok s') :
    countFact classes fuel L hist ((a, .objs path ccls defaults childNames guards acts names), .list os) s'.root ∧
    kidsFact (Counts classes fuel) hist ((a, .objs path ccls defaults childNames guards acts names), .list os) s'.root := by
  refine ⟨?_, ?_⟩
  · simp only [countFact]
    intro ci nm jj rest hsl hra hlast hfirst _ p hp
    have hacts := headLen_some acts ci nm rest hsl
    subst hacts
    refine pushLink_objs_count_head (commitObj classes fuel) (foot classes fuel) hist s s' a path ccls defaults childNames
      guards names os p ci nm jj rest hp hlast hfirst hra ?_ ?_ h
    · intro hh o t t' ht hpres hq
      exact commitObj_inv _ classes fuel ccls hh o t t' ht hpres hq
    · intro oi hoi w hw
      exact pres_len_of_below p w _ oi.2 (foot_below classes fuel ccls path hist oi.2 oi.1 p hp hnest w hw)
  · simp only [kidsFact]
    intro p hp
    have hactd : ∀ act ∈ acts, Diverge (act.dest.path (dropLastStep p)) p := fun act hact =>
      resolve_diverge hist _ path _ p (resolve_dest hist path p act.dest hp) hp (List.all_eq_true.mp hown act hact)
    obtain ⟨p', old, dflt, s1, s2, hr, hg, hw, hf, ha⟩ :=
      pushLink_objs_steps (commitObj classes fuel) hist s s' a path ccls defaults childNames guards acts names os h
    rw [hp] at hr; cases hr
    have hkids : ∀ oi ∈ os.zipIdx, Counts classes fuel ccls (hist ++ [oi.2]) oi.1 s2.root := by
      refine foldlM_forward (fun (st : Sections) (oi : Val × Nat) => commitObj classes fuel ccls (hist ++ [oi.2]) oi.1 st)
        (fun oi st => Counts classes fuel ccls (hist ++ [oi.2]) oi.1 st.root) (fun oi => oi.2) os.zipIdx ?_ ?_ ?_ s1 s2 hf
      · rw [List.zipIdx_map_snd]; exact List.nodup_range' 1
      · intro x _ t t' ht
        exact hchild x.2 x.1 t t' ht
      · intro x _ y _ hne t t' ht hy
        refine commitObj_inv _ classes fuel ccls (hist ++ [x.2]) x.1 t t' ht ?_ hy
        intro w hw'
        obtain ⟨r, rfl⟩ := foot_below classes fuel ccls path hist x.2 x.1 p hp hnest w hw'
        refine counts_pres classes fuel ccls path hist y.2 y.1 p _ hp hnest ?_
        intro r'
        have := diverge_sibling p x.2 y.2 r r' (fun e => hne e.symm)
        simpa using this
    intro oi hoi
    refine applyActs_inv _ acts (dropLastStep p) names ?_ s2 s' ha (hkids oi hoi)
    intro act hact
    exact counts_pres classes fuel ccls path hist oi.2 oi.1 p _ hp hnest
      (away_of_diverge _ _ (diverge_append_right _ p _ (hactd act hact)))

/-! ### the commit of an object establishes `Counts` -/

def kidsNamesOk (classes : List ClassSpec) (fuel : Nat) : LinkKind → Bool
  | .objs _ ccls _ _ _ _ _ => namesOk classes fuel ccls
  | _ => true

theorem links_counts (classes : List ClassSpec) (fuel : Nat) (hist : List Nat) (L : List (Nat × LinkKind))
    (hchild : ∀ ccls, tableSafe classes fuel ccls (hist.length + 1) = true → namesOk classes fuel ccls = true →
      ∀ h o t t', h.length = hist.length + 1 → commitObj classes fuel ccls h o t = .ok t' →
        Counts classes fuel ccls h o t'.root)
    (ls : List (Nat × LinkKind)) :
    ∀ (vs : List Val) (s s' : Sections),
      (∀ l ∈ ls, l ∈ L) → (ls.map (·.1)).Nodup →
      (∀ l ∈ ls, ownSafe classes fuel hist.length (tableSafe classes fuel) l.2 = true) →
      (∀ l ∈ ls, kidsNamesOk classes fuel l.2 = true) →
      awayAll classes fuel hist.length ls = true →
      (ls.zip vs).reverse.foldlM (pushLink (commitObj classes fuel) hist) s = .ok s' →
      ∀ lv ∈ ls.zip vs, countFact classes fuel L hist lv s'.root ∧ kidsFact (Counts classes fuel) hist lv s'.root := by
  induction ls with
  | nil => intro vs s s' _ _ _ _ _ _ lv hlv; simp at hlv
  | cons x ls ih =>
    intro vs s s' hsub hnd hown hkn haway h
    cases vs with
    | nil => intro lv hlv; simp at hlv
    | cons v vs =>
      simp only [List.zip_cons_cons, List.reverse_cons] at h
      rw [List.foldlM_append] at h
      simp only [bind, Except.bind] at h
      cases hA : (ls.zip vs).reverse.foldlM (pushLink (commitObj classes fuel) hist) s with
      | error e => rw [hA] at h; cases h
      | ok sA =>
        rw [hA] at h
        simp only [List.foldlM, bind, Except.bind] at h
        cases hB : pushLink (commitObj classes fuel) hist sA (x, v) with
        | error e => rw [hB] at h; cases h
        | ok sB =>
          rw [hB] at h
          simp only [pure, Except.pure, Except.ok.injEq] at h
          subst h
          simp only [awayAll, Bool.and_eq_true] at haway
          simp only [List.map_cons, List.nodup_cons] at hnd
          have ihL := ih vs s sA (fun l hl => hsub l (by simp [hl])) hnd.2 (fun l hl => hown l (by simp [hl]))
            (fun l hl => hkn l (by simp [hl])) haway.2 hA
          have hx := hown x (by simp)
          have hxk := hkn x (by simp)
          have hxL := hsub x (by simp)
          intro lv hlv
          simp only [List.zip_cons_cons, List.mem_cons] at hlv
          rcases hlv with rfl | hlv
          · obtain ⟨a, k⟩ := x
            cases k with
            | hist n => exact ⟨by simp [countFact], by simp [kidsFact]⟩
            | skip => exact ⟨by simp [countFact], by simp [kidsFact]⟩
            | plain path acts names => exact ⟨by simp [countFact], by simp [kidsFact]⟩
            | objs path ccls defaults childNames guards acts names =>
              simp only [ownSafe, Bool.and_eq_true] at hx
              obtain ⟨⟨hnest, hacts⟩, hrec⟩ := hx
              simp only [kidsNamesOk] at hxk
              cases v with
              | list os =>
                refine pushLink_objs_counts classes fuel L hist sA sB a path ccls defaults childNames guards acts names os
                  hnest hacts ?_ hB
                intro i o t t' ht
                exact hchild ccls hrec hxk (hist ++ [i]) o t t' (by simp) ht
              | _ => exact ⟨by simp [countFact], by simp [kidsFact]⟩
          · have hold := ihL lv hlv
            have hlin : lv.1 ∈ ls := (List.of_mem_zip hlv).1
            have hne : (x.1 == lv.1.1) = false := by
              have : x.1 ≠ lv.1.1 := by
                intro e; exact hnd.1 (by rw [e]; exact List.mem_map_of_mem hlin)
              simpa using this
            have hrcinv : ∀ (Q : Val → Prop) cc hh o u u', commitObj classes fuel cc hh o u = .ok u' →
                AllPres Q (foot classes fuel cc hh o) → Q u.root → Q u'.root :=
              fun Q cc hh o u u' hu hpres hQu => commitObj_inv Q classes fuel cc hh o u u' hu hpres hQu
            obtain ⟨⟨a', k'⟩, v'⟩ := lv
            cases k' with
            | hist n => exact ⟨by simp [countFact], by simp [kidsFact]⟩
            | skip => exact ⟨by simp [countFact], by simp [kidsFact]⟩
            | plain path' acts' names' => exact ⟨by simp [countFact], by simp [kidsFact]⟩
            | objs path' ccls' d' cn' g' acts' names' =>
              cases v' with
              | list os' =>
                have hownlv := hown (a', .objs path' ccls' d' cn' g' acts' names') (by simp [hlin])
                simp only [ownSafe, Bool.and_eq_true] at hownlv
                obtain ⟨⟨hnest', _⟩, _⟩ := hownlv
                refine ⟨?_, ?_⟩
                · have hcf := hold.1
                  simp only [countFact] at hcf ⊢
                  intro ci nm jj rest hsl hra hlast hfirst hguard p hp
                  have hfact := hcf ci nm jj rest hsl hra hlast hfirst hguard p hp
                  have haw : linkAway classes fuel hist.length (destPPath path' (.self ci)) x.2 = true := by
                    have := List.all_eq_true.mp hguard x hxL
                    simpa [hne] using this
                  have hcp : resolve hist (destPPath path' (.self ci)) = some (dropLastStep p ++ [Step.fld ci]) := by
                    have := resolve_dest hist path' p (.self ci) hp
                    simpa [Dest.path] using this
                  let Q : Val → Prop := fun t => getAt (dropLastStep p ++ [Step.fld ci]) t = some (.int os'.length)
                  exact pushLink_inv Q (commitObj classes fuel) (foot classes fuel) (hrcinv Q) hist sA sB (x, v) hB
                    (linkAway_pres classes fuel hist _ _ hcp Q (fun w hd => pres_of_diverge _ w _ hd) (x, v) haw) hfact
                · have hkf := hold.2
                  simp only [kidsFact] at hkf ⊢
                  intro p hp oi hoi
                  have haw : linkAway classes fuel hist.length path' x.2 = true := by
                    have := List.all_eq_true.mp haway.1 (a', .objs path' ccls' d' cn' g' acts' names') hlin
                    simpa [pathOf] using this
                  let Q : Val → Prop := Counts classes fuel ccls' (hist ++ [oi.2]) oi.1
                  refine pushLink_inv Q (commitObj classes fuel) (foot classes fuel) (hrcinv Q) hist sA sB (x, v) hB
                    (linkAway_pres classes fuel hist path' p hp Q ?_ (x, v) haw) (hkf p hp oi hoi)
                  intro w hd
                  exact counts_pres classes fuel ccls' path' hist oi.2 oi.1 p w hp hnest'
                    (away_of_diverge _ w (diverge_append_right w p _ hd))
              | _ => exact ⟨by simp [countFact], by simp [kidsFact]⟩

/-- **after a successful commit every counted object list - at every nesting depth - is stored with a count that equals
its number of objects** (where no other link writes the count retriever), for class tables that pass the decidable checks -/
theorem commit_counts (classes : List ClassSpec) (fuel : Nat) :
    ∀ (cls : Nat) (hist : List Nat) (obj : Val) (s s' : Sections),
      tableSafe classes fuel cls hist.length = true → namesOk classes fuel cls = true →
      commitObj classes fuel cls hist obj s = .ok s' → Counts classes fuel cls hist obj s'.root := by
  induction fuel with
  | zero => intro cls hist obj s s' _ _ h; simp [commitObj] at h
  | succ fuel ih =>
    intro cls hist obj s s' hsafe hnames h
    simp only [commitObj] at h
    simp only [Counts]
    cases hc : classes[cls]? with
    | none => simp [hc] at h
    | some c =>
      cases obj with
      | strct vals =>
        simp only [hc] at h ⊢
        simp only [tableSafe, hc, Bool.and_eq_true, List.all_eq_true] at hsafe
        simp only [namesOk, hc, Bool.and_eq_true, decide_eq_true_eq, List.all_eq_true] at hnames
        refine links_counts classes fuel hist c.links ?_ c.links vals s s' (fun l hl => hl) hnames.1 hsafe.1 ?_ hsafe.2 h
        · intro ccls hts hno hh o t t' hlen ht
          exact ih ccls hh o t t' (by rw [hlen]; exact hts) hno ht
        · intro l hl
          have := hnames.2 l hl
          cases hk : l.2 <;> simp_all [kidsNamesOk]
      | _ => simp [hc] at h

/-! non-vacuity: on the two-level demo table of `CommitHolds` the theorem yields the concrete count -/
example : namesOk demo3Classes 3 0 = true := by decide
example (s' : Sections) (h : commitObj demo3Classes 3 0 [] demo3Obj demo3Secs = .ok s') :
    getAt [Step.fld 0, Step.fld 1] s'.root = some (.int 2) := by
  have hC := commit_counts demo3Classes 3 0 [] demo3Obj demo3Secs s' (by decide) (by decide) h
  simp only [Counts, demo3Classes, demo3Obj, List.getElem?_cons_zero] at hC
  have := (hC ((1, .objs [.fld 0, .fld 2] 1 [.int 0, .int 0] [20, 21] []
      [{ dest := .self 1, expr := .len (.ref (.self 12)) }] [10, 11, 12]),
      .list [.strct [.int 99, .int 1, .int 2], .strct [.int 99, .int 3, .int 4]]) (by simp)).1
  simp only [countFact] at this
  have h2 := this 1 12 2 [] rfl (by decide) rfl (by decide) (by decide) [Step.fld 0, Step.fld 2] rfl
  simpa [dropLastStep] using h2

end Aoe.Props.CommitCounts
