import Aoe.Props.Codec
/-!
# C03 – what you set is what you get after save and reload

`reload (save st) = st`. The save is `serialize ∘ commit`, the reload `construct ∘ parse`.
Proved here, for every table: the section level – a consistent tree survives save and reload unchanged
(`sections_survive_save_reload`), and two different consistent trees never collapse into one file
(`nothing_lost_or_merged`).

Partial: the manager level (`construct (commit m t) = m` under the managers' invariants – trigger ids = positions and
permutation orders (C06/C07), units stored once under their owner (C10), terrain of size² tiles (C11), packing of
class/amount (C17)) is not yet assembled into one theorem (manager model M4 in progress). It is decided on the real code:
for seeded random histories over all public manager operations of every version, with saves at arbitrary points, the
dump of the re-loaded managers must equal the dump taken at the moment of the save (`harness/h_c03.py`).
-/
namespace Aoe.Props.C03
open Aoe Aoe.Bytes Aoe.Codec

theorem sections_survive_save_reload (t : Table) (tr : Tree) (hb bb z : Bytes) (hc : Consistent t tr)
    (h1 : serializeHeader t tr = .ok hb) (h2 : serializeBody t tr = .ok bb) :
    parseHeader t (hb ++ z) = .ok (tr.header, z) ∧ parseBody t tr.header bb = .ok (tr.body, .list [], []) :=
  Aoe.Props.Codec.parse_serialize t tr hb bb z hc h1 h2

theorem nothing_lost_or_merged (t : Table) (t1 t2 : Tree) (hb bb : Bytes)
    (c1 : Consistent t t1) (c2 : Consistent t t2)
    (h1 : serializeHeader t t1 = .ok hb) (h2 : serializeHeader t t2 = .ok hb)
    (b1 : serializeBody t t1 = .ok bb) (b2 : serializeBody t t2 = .ok bb) :
    t1.header = t2.header ∧ t1.body = t2.body ∧ t1.eofMark = t2.eofMark :=
  Aoe.Props.Codec.serialize_injective t t1 t2 hb bb c1 c2 h1 h2 b1 b2

/-- floats: the file holds 4 raw bytes, which come back unchanged ("to 32-bit precision") -/
theorem f32_bits_survive (γ : Env) (b rest : Bytes) (h : b.length = 4) :
    (rawC true 4).dec γ (b ++ rest) = .ok (.flt b, rest) :=
  (rawC true 4).dec_enc γ (.flt b) b rest ⟨b, h, rfl⟩ rfl

example : ∃ (t : Table) (tr : Tree), Consistent t tr :=
  ⟨{ header := { name := 0, fields := [(1, field (intC false 4) (.static 1) none false)] }, body := [] },
   { header := [.int 7], body := [] }, consistentB_sound _ _ (by decide)⟩

end Aoe.Props.C03
