import Aoe.Props.Codec
/-!
# C02 – loaded values are exactly what the structure definition says the bytes mean

The independent decoder the property asks for is `parseHeader`/`parseBody` applied to the table regenerated from
`structure.json` (module `Aoe.Generated.*`); the harness compares it with the library field by field. The theorems
below state what that decoder means, for every table.
-/
namespace Aoe.Props.C02
open Aoe Aoe.Bytes Aoe.Codec

/-- unsigned little endian: `Σ bs[i]·256^i` (Horner form) -/
theorem decUInt_spec (b : UInt8) (bs : Bytes) :
    decUInt [] = 0 ∧ decUInt (b :: bs) = (b.toNat : Int) + 256 * decUInt bs := by
  simp [decUInt, decNat]

/-- signed little endian: two's complement of the unsigned value at the declared width -/
theorem decSInt_spec (bs : Bytes) :
    decSInt bs = if decNat bs < 256 ^ bs.length / 2 then (decNat bs : Int)
                 else (decNat bs : Int) - ((256 ^ bs.length : Nat) : Int) := rfl

/-- every byte string of width `n` is the encoding of exactly one unsigned integer, the one decoded -/
theorem uint_bijection (n : Nat) (v : Int) (bs : Bytes) :
    (encUInt n v = .ok bs → decUInt bs = v ∧ bs.length = n) ∧ encUInt bs.length (decUInt bs) = .ok bs :=
  ⟨decUInt_encUInt n v bs, encUInt_decUInt bs⟩

/-- same for signed integers (width ≥ 1) -/
theorem sint_bijection (n : Nat) (v : Int) (bs : Bytes) (hl : 0 < bs.length) :
    (encSInt n v = .ok bs → decSInt bs = v ∧ bs.length = n) ∧ encSInt bs.length (decSInt bs) = .ok bs :=
  ⟨decSInt_encSInt n v bs, encSInt_decSInt bs hl⟩

/-- the decoded range is exactly the declared one -/
theorem decUInt_range (bs : Bytes) : 0 ≤ decUInt bs ∧ decUInt bs < ((256 ^ bs.length : Nat) : Int) := by
  have := decNat_lt bs
  simp only [decUInt]; omega

/-- strings: the value is the payload minus ONE trailing NUL (UTF-8 branch) -/
theorem str_value_spec (p : Bytes) (h : validUtf8 (stripNul p) = true) : decodeStr p = stripNul p := by
  simp [decodeStr, h]

/-- scalar-versus-list shape: a list unless the repeat is 1; with repeat 1 the `is_list` flag decides and, absent a
flag, the single item is exposed as a scalar -/
theorem vorl_shape (n : Int) (isList : Option Bool) (x : Val) (items : List Val) :
    (n ≠ 1 → vorl n isList items = .list items) ∧
    (vorl 1 (some true) items = .list items) ∧
    (vorl 1 (some false) [x] = x) ∧
    (vorl 1 none [x] = x) := by
  refine ⟨fun h => by simp [vorl, h], by simp [vorl], by simp [vorl], by simp [vorl]⟩

theorem decMany_length (c : ICodec) (γ : Env) (k : Nat) (bs : Bytes) (vs : List Val) (rest : Bytes)
    (h : decMany c γ k bs = .ok (vs, rest)) : vs.length = k := by
  induction k generalizing bs vs rest with
  | zero => simp only [decMany, Except.ok.injEq, Prod.mk.injEq] at h; rw [← h.1]; rfl
  | succ k ih =>
    simp only [decMany, bind, Except.bind] at h
    cases e1 : c.dec γ bs with
    | error e => rw [e1] at h; cases h
    | ok p =>
      obtain ⟨v, r⟩ := p
      rw [e1] at h; simp only at h
      cases e2 : decMany c γ k r with
      | error e => rw [e2] at h; cases h
      | ok q =>
        obtain ⟨ws, r'⟩ := q
        rw [e2] at h
        simp only [pure, Except.pure, Except.ok.injEq, Prod.mk.injEq] at h
        rw [← h.1]; simp [ih r ws r' e2]

/-- element counts: a field holds exactly as many items as its repeat count evaluates to (negative counts read
nothing), and struct fields are always lists -/
theorem field_count_spec (c : ICodec) (cnt : Count) (isList : Option Bool) (isStruct : Bool) (γ : Env)
    (bs : Bytes) (v : Val) (rest : Bytes) (h : fieldDec c cnt isList isStruct γ bs = .ok (v, rest)) :
    ∃ n items, cnt.eval γ = .ok n ∧ items.length = n.toNat ∧
      v = (if isStruct then .list items else vorl n isList items) := by
  unfold fieldDec at h
  simp only [bind, Except.bind] at h
  cases e1 : cnt.eval γ with
  | error e => rw [e1] at h; cases h
  | ok n =>
    rw [e1] at h; simp only at h
    cases e2 : decMany c γ n.toNat bs with
    | error e => rw [e2] at h; cases h
    | ok q =>
      obtain ⟨items, r⟩ := q
      rw [e2] at h
      simp only [pure, Except.pure, Except.ok.injEq, Prod.mk.injEq] at h
      exact ⟨n, items, rfl, decMany_length c γ _ bs items r e2, h.1.symm⟩

/-- the decoder is a function of bytes and table only, and it is the left inverse of the encoder on consistent
trees: what was written is what is read, all header bytes and all body bytes are consumed -/
theorem decode_of_encoded (t : Table) (tr : Tree) (hb bb z : Bytes) (hc : Consistent t tr)
    (h1 : serializeHeader t tr = .ok hb) (h2 : serializeBody t tr = .ok bb) :
    parseHeader t (hb ++ z) = .ok (tr.header, z) ∧ parseBody t tr.header bb = .ok (tr.body, .list [], []) :=
  Aoe.Props.Codec.parse_serialize t tr hb bb z hc h1 h2

/-- no two consistent trees share their bytes (the meaning of a file is unambiguous) -/
theorem decode_unambiguous (t : Table) (t1 t2 : Tree) (hb bb : Bytes)
    (c1 : Consistent t t1) (c2 : Consistent t t2)
    (h1 : serializeHeader t t1 = .ok hb) (h2 : serializeHeader t t2 = .ok hb)
    (b1 : serializeBody t t1 = .ok bb) (b2 : serializeBody t t2 = .ok bb) :
    t1.header = t2.header ∧ t1.body = t2.body ∧ t1.eofMark = t2.eofMark :=
  Aoe.Props.Codec.serialize_injective t t1 t2 hb bb c1 c2 h1 h2 b1 b2

/-! ### non-vacuity -/
example : decUInt [0x34, 0x12] = 0x1234 ∧ decSInt [0xFF, 0xFF] = -1 ∧ decSInt [0x00, 0x80] = -32768 := by decide
example : encSInt 2 (-32768) = .ok [0x00, 0x80] ∧ encUInt 1 256 = .error .overflow := ⟨by rfl, by rfl⟩
example : stripNul [0x61, 0x62, 0] = [0x61, 0x62] ∧ stripNul [0x61, 0, 0] = [0x61, 0] := by decide

/-- a concrete two-level table `{n : u32, items : n × {a : u8, s : str16}}` and a consistent tree for it -/
def demoTable : Table :=
  { header := { name := 0, fields := [(1, field (intC false 4) (.static 1) none false)] },
    body := [{ name := 2, fields := [
      (3, field (intC false 4) (.static 1) none false),
      (4, field (record false [(5, field (intC false 1) (.static 1) none false),
                               (6, field (intC true 2) (.static 1) none false)])
            (.expr (.ref (.self 3))) (some true) true)] }] }

def demoTree : Tree :=
  { header := [.int 7], body := [.strct [.int 2, .list [.strct [.int 1, .int (-2)], .strct [.int 3, .int 4]]]] }

example : consistentB demoTable demoTree = true := by decide
example : Consistent demoTable demoTree := consistentB_sound _ _ (by decide)
example : serializeBody demoTable demoTree = .ok [2, 0, 0, 0, 1, 0xFE, 0xFF, 3, 4, 0] := by rfl

end Aoe.Props.C02
