import Aoe.Props.Codec
/-!
# C01 – unedited load/save reproduces the file byte for byte

Skip-reconstruction mode is `serialize ∘ parse`. For every table (hence for each of the 15 regenerated ones):
a file in the image of the serializer on consistent trees – "any file the library itself has written", and the normal
form the property describes – is reproduced exactly (`roundtrip_skip_mode`). The only field a save itself changes is the embedded file name, which
follows the output name – the harness therefore writes every round trip to the same stem in another directory.

Leaf-level characterisation of the normal form of strings (`str_normal_form`): a stored payload is reproduced iff it is
valid UTF-8 and carries exactly the terminator policy of its field (one NUL for terminated strings, none for the fields of
the library's no-trail list). The strings of effects (`message`, `sound_name`) are in the no-trail list while the file
terminates them when the effect type uses them – re-serialising WITHOUT the managers' commit callback therefore drops that
NUL: `effect_string_terminator_dropped` (defect F13, known finding).

Reconstruction mode is `serialize ∘ commit ∘ construct ∘ parse`; `commit ∘ construct = id` is proved generically for lawful
link families (`Aoe.Props.Links`, when present) and otherwise checked on the real code for every input (harness).
-/
namespace Aoe.Props.C01
open Aoe Aoe.Bytes Aoe.Codec

/-- skip-reconstruction round trip of a library-written / normal-form file: byte identical, nothing left over -/
theorem roundtrip_skip_mode (t : Table) (tr : Tree) (hb bb : Bytes) (hc : Consistent t tr)
    (h1 : serializeHeader t tr = .ok hb) (h2 : serializeBody t tr = .ok bb)
    (hdr : List Val) (z : Bytes) (body : List Val) (m : Val) (r : Bytes)
    (p1 : parseHeader t (hb ++ z) = .ok (hdr, z)) (p2 : parseBody t hdr bb = .ok (body, m, r)) :
    serializeHeader t { header := hdr, body := body, eofMark := m } = .ok hb ∧
    serializeBody t { header := hdr, body := body, eofMark := m } = .ok bb ∧ r = [] :=
  Aoe.Props.Codec.serialize_parse_of_written t tr hb bb hc h1 h2 hdr z body m r p1 p2

/-- the parse of such a file exists and is the tree that was written (so the premise of `roundtrip_skip_mode` is met) -/
theorem parse_exists (t : Table) (tr : Tree) (hb bb z : Bytes) (hc : Consistent t tr)
    (h1 : serializeHeader t tr = .ok hb) (h2 : serializeBody t tr = .ok bb) :
    parseHeader t (hb ++ z) = .ok (tr.header, z) ∧ parseBody t tr.header bb = .ok (tr.body, .list [], []) :=
  Aoe.Props.Codec.parse_serialize t tr hb bb z hc h1 h2

/-- normal form of a string payload for a field with terminator policy `trail`: what the file stores is reproduced by
decode-then-encode iff it is valid UTF-8 and ends with exactly the terminator the policy asks for -/
def strNF (trail : Bool) (p : Bytes) : Prop :=
  validUtf8 (stripNul p) = true ∧
  (if trail then endsNul p = true ∧ endsNul (stripNul p) = false else endsNul p = false)

theorem dropLast_append_of_endsNul (p : Bytes) (h : endsNul p = true) : dropLast p ++ [0] = p := by
  induction p with
  | nil => cases h
  | cons b bs ih =>
    cases bs with
    | nil => simp only [endsNul, beq_iff_eq] at h; subst h; rfl
    | cons c cs => simp only [endsNul] at h; simp only [dropLast, List.cons_append]; rw [ih h]

/-- a payload in normal form is reproduced exactly -/
theorem str_normal_form (trail : Bool) (p : Bytes) (h : strNF trail p) : strPayload trail (decodeStr p) = p := by
  obtain ⟨hv, ht⟩ := h
  unfold decodeStr strPayload
  simp only [hv, if_true]
  cases trail
  · simp only [Bool.false_eq_true, if_false] at ht ⊢
    simp [stripNul, ht]
  · simp only [if_true] at ht ⊢
    obtain ⟨h1, h2⟩ := ht
    unfold addNul
    rw [h2]
    simp only [Bool.false_eq_true, if_false]
    unfold stripNul
    simp only [h1, if_true]
    exact dropLast_append_of_endsNul p h1

/-- F13 (witness): a terminated payload `"hi\0"` in a no-trail field comes back one byte shorter -/
theorem effect_string_terminator_dropped :
    strPayload false (decodeStr [0x68, 0x69, 0]) = [0x68, 0x69] ∧ ¬ strNF false [0x68, 0x69, 0] := by
  constructor
  · decide
  · intro h; have := h.2; revert this; decide

/-- non-vacuity: the two normal forms exist -/
example : strNF true [0x68, 0x69, 0] ∧ strNF false [0x68, 0x69] := by
  refine ⟨⟨by decide, by decide⟩, ⟨by decide, by decide⟩⟩

end Aoe.Props.C01
