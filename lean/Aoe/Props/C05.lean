import Aoe.Model.Lens
import Aoe.Props.Codec
/-!
# C05 – edits land exactly where they belong and nowhere else

Lens laws of link addressing (`getAt`/`setAt`): a push is read back by the same link (`get_set`), pushing what was pulled
changes nothing (`set_get`), and – the frame condition – a push through one path leaves every field at a path that
diverges from it untouched (`frame`). Slot arithmetic: the three GAIA conventions map different players to different
positions and each player to the documented one (`pos_injective`, `pos_spec`), tile `(x, y)` is record `y*size + x` and
different tiles are different records (`tile_index_injective`), so an edit addressed to one slot cannot land in another.

Which file fields represent which attribute (the golden layout table of DESIGN §5 C05, `harness/layout.py`) is an
assumption; the harness checks, for every attribute x slot of every version, that the set of fields changed in the saved
file – decoded by the generated Lean reader – is exactly the layout's prediction.

Partial: the per-class commit functions (which links an object pushes, and the derived duplicates of `PlayerManager`) are
not yet modelled in Lean (M4 in progress); the theorems here are the addressing laws they rely on.
-/
namespace Aoe.Props.C05
open Aoe Aoe.Codec Aoe.Lens

theorem get_set (p : List Step) (t x t' : Val) (h : setAt p t x = some t') : getAt p t' = some x := by
  induction p generalizing t t' with
  | nil => simp only [setAt, Option.some.injEq] at h; subst h; rfl
  | cons s r ih =>
    cases s with
    | fld i =>
      cases t <;> try (simp [setAt] at h; done)
      rename_i vs
      simp only [setAt] at h
      cases hv : vs[i]? with
      | none => rw [hv] at h; cases h
      | some v =>
        rw [hv] at h; simp only at h
        cases hs : setAt r v x with
        | none => rw [hs] at h; cases h
        | some v' =>
          rw [hs] at h; simp only [Option.some.injEq] at h; subst h
          have hi : i < vs.length := by
            rcases Nat.lt_or_ge i vs.length with h' | h'
            · exact h'
            · rw [List.getElem?_eq_none h'] at hv; cases hv
          simp only [getAt, List.getElem?_set_self hi]
          exact ih v v' hs
    | idx i =>
      cases t <;> try (simp [setAt] at h; done)
      rename_i vs
      simp only [setAt] at h
      cases hv : vs[i]? with
      | none => rw [hv] at h; cases h
      | some v =>
        rw [hv] at h; simp only at h
        cases hs : setAt r v x with
        | none => rw [hs] at h; cases h
        | some v' =>
          rw [hs] at h; simp only [Option.some.injEq] at h; subst h
          have hi : i < vs.length := by
            rcases Nat.lt_or_ge i vs.length with h' | h'
            · exact h'
            · rw [List.getElem?_eq_none h'] at hv; cases hv
          simp only [getAt, List.getElem?_set_self hi]
          exact ih v v' hs

theorem set_get (p : List Step) (t v : Val) (h : getAt p t = some v) : setAt p t v = some t := by
  induction p generalizing t with
  | nil => simp only [getAt, Option.some.injEq] at h; subst h; rfl
  | cons s r ih =>
    cases s with
    | fld i =>
      cases t <;> try (simp [getAt] at h; done)
      rename_i vs
      simp only [getAt] at h
      cases hv : vs[i]? with
      | none => rw [hv] at h; cases h
      | some w =>
        rw [hv] at h; simp only at h
        simp only [setAt, hv, ih w h]
        congr 2
        have hi : i < vs.length := by
          rcases Nat.lt_or_ge i vs.length with h' | h'
          · exact h'
          · rw [List.getElem?_eq_none h'] at hv; cases hv
        have hw : vs[i] = w := by
          have := List.getElem?_eq_getElem hi
          rw [this] at hv; exact Option.some.inj hv
        rw [← hw]; exact List.set_getElem_self hi
    | idx i =>
      cases t <;> try (simp [getAt] at h; done)
      rename_i vs
      simp only [getAt] at h
      cases hv : vs[i]? with
      | none => rw [hv] at h; cases h
      | some w =>
        rw [hv] at h; simp only at h
        simp only [setAt, hv, ih w h]
        congr 2
        have hi : i < vs.length := by
          rcases Nat.lt_or_ge i vs.length with h' | h'
          · exact h'
          · rw [List.getElem?_eq_none h'] at hv; cases hv
        have hw : vs[i] = w := by
          have := List.getElem?_eq_getElem hi
          rw [this] at hv; exact Option.some.inj hv
        rw [← hw]; exact List.set_getElem_self hi

/-- two paths diverge: after a common prefix they take different steps -/
def Diverge : List Step → List Step → Prop
  | a :: p, b :: q => a ≠ b ∨ (a = b ∧ Diverge p q)
  | _, _ => False

/-- **frame**: a push through `p` leaves the field at any diverging path `q` exactly as it was -/
theorem frame (p q : List Step) (t x t' : Val) (hd : Diverge p q) (h : setAt p t x = some t') :
    getAt q t' = getAt q t := by
  induction p generalizing q t t' with
  | nil => cases q <;> exact absurd hd id
  | cons a r ih =>
    cases q with
    | nil => exact absurd hd id
    | cons b q' =>
      cases a with
      | fld i =>
        cases t <;> try (simp [setAt] at h; done)
        rename_i vs
        simp only [setAt] at h
        cases hv : vs[i]? with
        | none => rw [hv] at h; cases h
        | some v =>
          rw [hv] at h; simp only at h
          cases hs : setAt r v x with
          | none => rw [hs] at h; cases h
          | some v' =>
            rw [hs] at h; simp only [Option.some.injEq] at h; subst h
            cases b with
            | idx j => simp [getAt]
            | fld j =>
              by_cases hij : i = j
              · subst hij
                have hd' : Diverge r q' := by
                  rcases hd with h1 | h1
                  · exact absurd rfl h1
                  · exact h1.2
                have hi : i < vs.length := by
                  rcases Nat.lt_or_ge i vs.length with h' | h'
                  · exact h'
                  · rw [List.getElem?_eq_none h'] at hv; cases hv
                simp only [getAt, List.getElem?_set_self hi, hv]
                exact ih q' v v' hd' hs
              · simp only [getAt, List.getElem?_set_ne hij]
      | idx i =>
        cases t <;> try (simp [setAt] at h; done)
        rename_i vs
        simp only [setAt] at h
        cases hv : vs[i]? with
        | none => rw [hv] at h; cases h
        | some v =>
          rw [hv] at h; simp only at h
          cases hs : setAt r v x with
          | none => rw [hs] at h; cases h
          | some v' =>
            rw [hs] at h; simp only [Option.some.injEq] at h; subst h
            cases b with
            | fld j => simp [getAt]
            | idx j =>
              by_cases hij : i = j
              · subst hij
                have hd' : Diverge r q' := by
                  rcases hd with h1 | h1
                  · exact absurd rfl h1
                  · exact h1.2
                have hi : i < vs.length := by
                  rcases Nat.lt_or_ge i vs.length with h' | h'
                  · exact h'
                  · rw [List.getElem?_eq_none h'] at hv; cases hv
                simp only [getAt, List.getElem?_set_self hi, hv]
                exact ih q' v v' hd' hs
              · simp only [getAt, List.getElem?_set_ne hij]

/-- the three GAIA conventions: player `p` goes to the documented position -/
theorem pos_spec (p : Nat) (hp : p ≤ 8) :
    pos .gaiaFirst p = some p ∧
    pos .gaiaLast p = some (if p = 0 then 8 else p - 1) ∧
    pos .noGaia p = (if p = 0 then none else some (p - 1)) := by
  refine ⟨by simp [pos, hp], ?_, ?_⟩
  · by_cases h0 : p = 0 <;> simp [pos, h0, hp]
  · by_cases h0 : p = 0
    · simp [pos, h0]
    · have : 1 ≤ p := Nat.pos_of_ne_zero h0
      simp [pos, h0, hp, this]

/-- different players never share a slot, whatever the convention -/
theorem pos_injective (c : Conv) (p q i : Nat) (hp : pos c p = some i) (hq : pos c q = some i) : p = q := by
  cases c <;> simp only [pos] at hp hq
  · split at hp <;> split at hq <;> (try split at hp) <;> (try split at hq) <;> simp_all <;> omega
  · split at hp <;> split at hq <;> simp_all
  · split at hp <;> split at hq <;> simp_all <;> omega

/-- tile `(x, y)` is record `y*size + x`; different tiles are different records, and the record determines the tile -/
theorem tile_index_injective (s x y x' y' : Nat) (hx : x < s) (hx' : x' < s)
    (h : tileIndex s x y = tileIndex s x' y') : x = x' ∧ y = y' := by
  unfold tileIndex at h
  have h1 : (y * s + x) % s = x := by rw [Nat.mul_comm, Nat.mul_add_mod]; exact Nat.mod_eq_of_lt hx
  have h2 : (y' * s + x') % s = x' := by rw [Nat.mul_comm, Nat.mul_add_mod]; exact Nat.mod_eq_of_lt hx'
  have hxx : x = x' := by rw [← h1, ← h2, h]
  subst hxx
  have hs : 0 < s := by omega
  have : y * s = y' * s := by omega
  exact ⟨rfl, Nat.eq_of_mul_eq_mul_right hs this⟩

/-- effect `j` of trigger `i`: the history-addressed path, and edits to different (trigger, effect) slots diverge -/
theorem effect_slots_diverge (f g i j i' j' k : Nat) (h : (i, j) ≠ (i', j')) :
    Diverge [.fld f, .idx i, .fld g, .idx j, .fld k] [.fld f, .idx i', .fld g, .idx j', .fld k] := by
  by_cases hi : i = i'
  · subst hi
    have hj : j ≠ j' := fun e => h (by rw [e])
    exact Or.inr ⟨rfl, Or.inr ⟨rfl, Or.inr ⟨rfl, Or.inl (by simpa using hj)⟩⟩⟩
  · exact Or.inr ⟨rfl, Or.inl (by simpa using hi)⟩

/-! ### non-vacuity -/
example : setAt [.fld 1, .idx 0, .fld 0] (.strct [.int 1, .list [.strct [.int 5, .int 6]]]) (.int 9)
    = some (.strct [.int 1, .list [.strct [.int 9, .int 6]]]) := by rfl
example : Diverge [.fld 1, .idx 0, .fld 0] [.fld 1, .idx 0, .fld 1] := by
  exact Or.inr ⟨rfl, Or.inr ⟨rfl, Or.inl (by decide)⟩⟩
example : pos .gaiaLast 0 = some 8 ∧ pos .gaiaLast 3 = some 2 ∧ pos .noGaia 0 = none ∧ pos .gaiaFirst 3 = some 3 := by decide

end Aoe.Props.C05
