import Aoe.Model.PerPlayer
namespace Aoe.Props.C08
theorem placeholder : True := trivial
end Aoe.Props.C08
