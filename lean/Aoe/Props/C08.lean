import Aoe.Lemmas.PerPlayerTree
import Aoe.Lemmas.PerPlayerExamples
/-!
# C08 – per-player copies change only the player fields they are allowed to change

Theorems about the model `Aoe.PerPlayer` of `copy_trigger_per_player`, `replace_player` and
`copy_trigger_tree_per_player`, for **all** states, triggers, flag combinations, locks and player lists.

Vocabulary (defined in `Aoe.Lemmas.PerPlayerHeap`):
* `Selects s sel src t0` – `sel` resolves in `s` to the trigger object at address `src`, whose value is `t0`;
* `Corr t0 t' isEff j c c'` – `c` is condition (`isEff = false`) / effect (`isEff = true`) number `j` of `t0`
  and `c'` is the one at the same place of `t'`;
* `lockedAt lk isEff j c` – the `TriggerCELock` `lk` locks that component (all / by index / by type);
* `owners a` – the dict keys of the result: the requested players (default 1..8, GAIA appended when asked and
  missing) without the source player, first occurrences, in request order.
A component is `{kind, src, tgt, link, rest}`; `rest` stands for every attribute the property calls "non-player".
-/
namespace Aoe.Props.C08
open Aoe.PerPlayer

variable {s s' : State} {a : Args} {sel : Sel} {d : List (Int × Nat)} {src x : Nat} {p : Int} {t0 t' : Trig}

/-! ## `copy_trigger_per_player` -/

/-- every returned copy is the componentwise rewriting of the source (the shape all clauses are read off) -/
theorem copy_shape (h : copyPerPlayer s a sel = .ok (s', d)) (hs : Selects s sel src t0) (hd : (p, x) ∈ d)
    (hx : s'.heap[x]? = some t') :
    ∃ k, t' = rewriteSpec (rwCopy a.flags a.frm p) a.lock { t0 with tid := k, name := t0.name ++ suffix p } := by
  obtain ⟨ti, di, src', t0', news, h1, h2, _, _, _, _, _, h8⟩ := copyPerPlayer_ok h
  obtain ⟨ti', di', hs1, hs2⟩ := hs
  rw [h1] at hs1; injection hs1 with hs1; injection hs1 with _ hs1; injection hs1 with _ hs1; subst hs1
  rw [h2] at hs2; injection hs2 with hs2; subst hs2
  obtain ⟨_, _, _, k, hk⟩ := h8 p x hd
  rw [hk] at hx; injection hx with hx
  exact ⟨k, by rw [← hx, mkCopy_eq]⟩

/-- **one copy per requested player**: the result has exactly the keys `owners a`, in that order; its values
are pairwise different, fresh (not objects of the old state) and listed in the manager; the number of new
objects is the number of requests other than the source player; the old list is a prefix of the new one. -/
theorem one_copy_per_player (h : copyPerPlayer s a sel = .ok (s', d)) :
    d.map (·.1) = owners a ∧ (d.map (·.2)).Nodup ∧
    s'.heap.length = s.heap.length + ((effPlayers a).filter (· != a.frm)).length ∧
    s'.list = s.list ++ List.range' s.heap.length ((effPlayers a).filter (· != a.frm)).length ∧
    (∀ p x, (p, x) ∈ d → s.heap.length ≤ x ∧ x < s'.heap.length ∧ x ∈ s'.list) := by
  obtain ⟨ti, di, src', t0', news, h1, h2, h3, h4, h5, _, h7, h8⟩ := copyPerPlayer_ok h
  refine ⟨h7, copyPerPlayer_vals_nodup h, by rw [h3]; simp [h4], by rw [h5, h4], ?_⟩
  intro p x hd
  obtain ⟨_, _, hge, k, hk⟩ := h8 p x hd
  have hlt : x < s'.heap.length := by
    rcases Nat.lt_or_ge x s'.heap.length with h | h
    · exact h
    · rw [List.getElem?_eq_none h] at hk; cases hk
  refine ⟨hge, hlt, ?_⟩
  rw [h5, List.mem_append, List.mem_range']
  right
  refine ⟨x - s.heap.length, ?_, by omega⟩
  rw [h3] at hlt; simp at hlt; omega

/-- who the owners are: everybody requested (`requested a` = `create_copy_for_players`, by default 1..8), plus
GAIA when `include_gaia`, except the source player; nobody twice -/
theorem owners_spec (a : Args) :
    (owners a).Nodup ∧
    (∀ p, p ∈ owners a ↔ p ≠ a.frm ∧ (p ∈ requested a ∨ (a.gaia = true ∧ p = 0))) := by
  refine ⟨nodup_foldl_addKey _ _ List.nodup_nil, ?_⟩
  intro p
  unfold owners
  rw [mem_foldl_addKey, effPlayers_eq]
  simp only [List.not_mem_nil, false_or, List.mem_filter, bne_iff_ne, ne_eq]
  by_cases hg : (a.gaia && !(requested a).contains 0) = true
  · simp only [hg, if_true, List.mem_append, List.mem_singleton]
    simp only [Bool.and_eq_true] at hg
    constructor
    · rintro ⟨hm | hm, hne⟩
      · exact ⟨hne, Or.inl hm⟩
      · exact ⟨hne, Or.inr ⟨hg.1, hm⟩⟩
    · rintro ⟨hne, hm | ⟨_, hm⟩⟩
      · exact ⟨Or.inl hm, hne⟩
      · exact ⟨Or.inr hm, hne⟩
  · simp only [hg, Bool.false_eq_true, if_false]
    constructor
    · rintro ⟨hm, hne⟩
      exact ⟨hne, Or.inl hm⟩
    · rintro ⟨hne, hm | ⟨hga, rfl⟩⟩
      · exact ⟨hm, hne⟩
      · simp only [Bool.and_eq_true, not_and, hga, true_implies] at hg
        exact ⟨by simpa using hg, hne⟩

/-- for a request without duplicates the owner list is literally the request without the source player -/
theorem owners_of_nodup (a : Args) (hn : (effPlayers a).Nodup) :
    owners a = (effPlayers a).filter (· != a.frm) := by
  unfold owners
  rw [foldl_addKey_of_nodup _ _ (by simpa using hn.sublist List.filter_sublist)]
  simp

/-- **frame**: a copy has as many conditions and effects as the source, and every non-player attribute
(`kind`, `link`, `rest`) of every one of them equals the source's -/
theorem copy_frame (h : copyPerPlayer s a sel = .ok (s', d)) (hs : Selects s sel src t0) (hd : (p, x) ∈ d)
    (hx : s'.heap[x]? = some t') :
    t'.conds.length = t0.conds.length ∧ t'.effs.length = t0.effs.length ∧
    ∀ isEff j c c', Corr t0 t' isEff j c c' → c'.kind = c.kind ∧ c'.link = c.link ∧ c'.rest = c.rest := by
  obtain ⟨k, rfl⟩ := copy_shape h hs hd hx
  refine ⟨(length_rewriteSpec _ _ _).1, (length_rewriteSpec _ _ _).2, ?_⟩
  intro isEff j c c' hc
  rw [corr_rewriteSpec rfl rfl hc]
  split
  · exact ⟨rfl, rfl, rfl⟩
  · exact rwCopy_frame _ _ _ _

/-- **locked components are untouched** (lock everything / by index / by type) -/
theorem locked_untouched (h : copyPerPlayer s a sel = .ok (s', d)) (hs : Selects s sel src t0) (hd : (p, x) ∈ d)
    (hx : s'.heap[x]? = some t') {isEff : Bool} {j : Nat} {c c' : Comp} (hc : Corr t0 t' isEff j c c')
    (hl : lockedAt a.lock isEff j c = true) : c' = c := by
  obtain ⟨k, rfl⟩ := copy_shape h hs hd hx
  rw [corr_rewriteSpec rfl rfl hc, hl]; rfl

/-- **source-player fields change only if source changes are enabled** -/
theorem src_only_if_enabled (h : copyPerPlayer s a sel = .ok (s', d)) (hs : Selects s sel src t0)
    (hd : (p, x) ∈ d) (hx : s'.heap[x]? = some t') {isEff : Bool} {j : Nat} {c c' : Comp}
    (hc : Corr t0 t' isEff j c c') (hne : c'.src ≠ c.src) : a.flags.incSrc = true := by
  obtain ⟨k, rfl⟩ := copy_shape h hs hd hx
  rw [corr_rewriteSpec rfl rfl hc] at hne
  split at hne
  · exact absurd rfl hne
  · exact (rwCopy_src _ _ _ _ hne).1

/-- **target-player fields change only if target changes are enabled** -/
theorem tgt_only_if_enabled (h : copyPerPlayer s a sel = .ok (s', d)) (hs : Selects s sel src t0)
    (hd : (p, x) ∈ d) (hx : s'.heap[x]? = some t') {isEff : Bool} {j : Nat} {c c' : Comp}
    (hc : Corr t0 t' isEff j c c') (hne : c'.tgt ≠ c.tgt) : a.flags.incTgt = true := by
  obtain ⟨k, rfl⟩ := copy_shape h hs hd hx
  rw [corr_rewriteSpec rfl rfl hc] at hne
  split at hne
  · exact absurd rfl hne
  · exact (rwCopy_tgt _ _ _ _ hne).1

/-- **kept if not the from-player**: under `change_from_player_only` a field that is not equal to the source
player (this includes unset `None` and `-1` fields) keeps its value -/
theorem kept_if_not_from_player (h : copyPerPlayer s a sel = .ok (s', d)) (hs : Selects s sel src t0)
    (hd : (p, x) ∈ d) (hx : s'.heap[x]? = some t') {isEff : Bool} {j : Nat} {c c' : Comp}
    (hc : Corr t0 t' isEff j c c') (hfo : a.flags.fromOnly = true) :
    (c.src ≠ some a.frm → c'.src = c.src) ∧ (c.tgt ≠ some a.frm → c'.tgt = c.tgt) := by
  obtain ⟨k, rfl⟩ := copy_shape h hs hd hx
  rw [corr_rewriteSpec rfl rfl hc]
  split
  · exact ⟨fun _ => rfl, fun _ => rfl⟩
  · constructor
    · intro hne
      apply Classical.byContradiction
      intro hch
      exact hne ((rwCopy_src _ _ _ _ hch).2.2.1 hfo)
    · intro hne
      apply Classical.byContradiction
      intro hch
      exact hne ((rwCopy_tgt _ _ _ _ hch).2.2.1 hfo)

/-- **every field that changes becomes the copy's player** -/
theorem changed_becomes_player (h : copyPerPlayer s a sel = .ok (s', d)) (hs : Selects s sel src t0)
    (hd : (p, x) ∈ d) (hx : s'.heap[x]? = some t') {isEff : Bool} {j : Nat} {c c' : Comp}
    (hc : Corr t0 t' isEff j c c') :
    (c'.src ≠ c.src → c'.src = some p) ∧ (c'.tgt ≠ c.tgt → c'.tgt = some p) := by
  obtain ⟨k, rfl⟩ := copy_shape h hs hd hx
  rw [corr_rewriteSpec rfl rfl hc]
  split
  · exact ⟨fun hne => absurd rfl hne, fun hne => absurd rfl hne⟩
  · exact ⟨fun hne => (rwCopy_src _ _ _ _ hne).2.1, fun hne => (rwCopy_tgt _ _ _ _ hne).2.1⟩

/-- a component whose source player is the "unset" value `-1` is left alone entirely (the `continue` of the loops) -/
theorem unset_source_untouched (h : copyPerPlayer s a sel = .ok (s', d)) (hs : Selects s sel src t0)
    (hd : (p, x) ∈ d) (hx : s'.heap[x]? = some t') {isEff : Bool} {j : Nat} {c c' : Comp}
    (hc : Corr t0 t' isEff j c c') (hu : c.src = some (-1)) : c' = c := by
  obtain ⟨k, rfl⟩ := copy_shape h hs hd hx
  rw [corr_rewriteSpec rfl rfl hc]
  split
  · rfl
  · simp [rwCopy, hu]

/-- **the source is not modified**: every object of the old state is still at its address with the same
conditions, effects and trigger id – all but the selected source are literally unchanged, and the source itself
only has its name extended by ` (p<from_player>)`. What the function returns for the source player: nothing
(`from_player ∉ owners`); the source object stays where it was. -/
theorem source_components_unmodified (h : copyPerPlayer s a sel = .ok (s', d)) (hs : Selects s sel src t0) :
    s'.heap[src]? = some (renameSrc a.frm t0) ∧
    (∀ (y : Nat) (t : Trig), s.heap[y]? = some t → y ≠ src → s'.heap[y]? = some t) ∧
    (∀ (y : Nat) (t : Trig), s.heap[y]? = some t → ∃ t1 : Trig, s'.heap[y]? = some t1 ∧ t1.conds = t.conds ∧ t1.effs = t.effs ∧
      t1.tid = t.tid) ∧
    a.frm ∉ d.map (·.1) := by
  obtain ⟨ti, di, src', t0', news, h1, h2, h3, _, _, _, h7, _⟩ := copyPerPlayer_ok h
  obtain ⟨ti', di', hs1, hs2⟩ := hs
  rw [h1] at hs1; injection hs1 with hs1; injection hs1 with _ hs1; injection hs1 with _ hs1
  have hs1' := hs1.symm; subst hs1'
  rw [h2] at hs2; injection hs2 with hs2; have hs2' := hs2.symm; subst hs2'
  have key : ∀ (y : Nat) (t : Trig), s.heap[y]? = some t → s'.heap[y]? = some (if src = y then renameSrc a.frm t else t) := by
    intro y t hy
    have hlt : y < s.heap.length := by
      rcases Nat.lt_or_ge y s.heap.length with h | h
      · exact h
      · rw [List.getElem?_eq_none h] at hy; cases hy
    rw [h3, List.getElem?_append_left (by simpa using hlt), List.getElem?_modify, hy]
    by_cases e : src = y <;> simp [e]
  refine ⟨by simpa using key src t0 h2, ?_, ?_, ?_⟩
  · intro y t hy hne
    have : ¬ src = y := fun e => hne e.symm
    simpa [this] using key y t hy
  · intro y t hy
    refine ⟨_, key y t hy, ?_⟩
    by_cases e : src = y <;> simp [e, renameSrc]
  · rw [h7]
    intro hm
    exact ((owners_spec a).2 a.frm).mp hm |>.1 rfl

/-! ## `replace_player` (in place) -/

variable {to : Int} {only : Option Int} {is_ it : Bool} {lk : Lock}

/-- `replace_player` returns the selected object itself, rewritten componentwise in place; no object is created,
every other object, the trigger list and the display order are untouched -/
theorem replace_shape (h : replacePlayer s sel to only is_ it lk = .ok (s', x)) (hs : Selects s sel src t0) :
    x = src ∧ s'.heap[src]? = some (rewriteSpec (rwReplace is_ it to only) lk t0) ∧
    s'.heap.length = s.heap.length ∧ (∀ y, y ≠ src → s'.heap[y]? = s.heap[y]?) ∧
    s'.list = s.list ∧ s'.order = s.order := by
  obtain ⟨ti, di, t0', h1, h2, h3, h4, h5⟩ := replacePlayer_ok h
  obtain ⟨ti', di', hs1, hs2⟩ := hs
  rw [h1] at hs1; injection hs1 with hs1; injection hs1 with _ hs1; injection hs1 with _ hs1
  have hs1' := hs1.symm; subst hs1'
  rw [h2] at hs2; injection hs2 with hs2; have hs2' := hs2.symm; subst hs2'
  refine ⟨rfl, ?_, by rw [h3]; simp, ?_, h4, h5⟩
  · rw [h3, List.getElem?_modify, h2]; simp
  · intro y hy
    have : ¬ src = y := fun e => hy e.symm
    rw [h3, List.getElem?_modify]; simp [this]

/-- frame of `replace_player`: same number of components, all non-player attributes kept -/
theorem replace_frame (h : replacePlayer s sel to only is_ it lk = .ok (s', x)) (hs : Selects s sel src t0)
    (hx : s'.heap[x]? = some t') :
    t'.conds.length = t0.conds.length ∧ t'.effs.length = t0.effs.length ∧ t'.name = t0.name ∧ t'.tid = t0.tid ∧
    ∀ isEff j c c', Corr t0 t' isEff j c c' → c'.kind = c.kind ∧ c'.link = c.link ∧ c'.rest = c.rest := by
  obtain ⟨rfl, h2, _⟩ := replace_shape h hs
  rw [h2] at hx; injection hx with hx; subst hx
  refine ⟨(length_rewriteSpec _ _ _).1, (length_rewriteSpec _ _ _).2, rfl, rfl, ?_⟩
  intro isEff j c c' hc
  rw [corr_rewriteSpec rfl rfl hc]
  split
  · exact ⟨rfl, rfl, rfl⟩
  · exact rwReplace_frame _ _ _ _ _

/-- locked components of the replaced trigger are untouched -/
theorem replace_locked_untouched (h : replacePlayer s sel to only is_ it lk = .ok (s', x))
    (hs : Selects s sel src t0) (hx : s'.heap[x]? = some t') {isEff : Bool} {j : Nat} {c c' : Comp}
    (hc : Corr t0 t' isEff j c c') (hl : lockedAt lk isEff j c = true) : c' = c := by
  obtain ⟨rfl, h2, _⟩ := replace_shape h hs
  rw [h2] at hx; injection hx with hx; subst hx
  rw [corr_rewriteSpec rfl rfl hc, hl]; rfl

/-- `replace_player`: a source-player field changes only if source changes are enabled, only if it was set
(neither `None` nor `-1`), only if it equals `only_change_from` when that is given, and it becomes `to_player` -/
theorem replace_src (h : replacePlayer s sel to only is_ it lk = .ok (s', x)) (hs : Selects s sel src t0)
    (hx : s'.heap[x]? = some t') {isEff : Bool} {j : Nat} {c c' : Comp} (hc : Corr t0 t' isEff j c c')
    (hne : c'.src ≠ c.src) :
    is_ = true ∧ c'.src = some to ∧ (∀ o, only = some o → c.src = some o) ∧ c.src ≠ none ∧ c.src ≠ some (-1) := by
  obtain ⟨rfl, h2, _⟩ := replace_shape h hs
  rw [h2] at hx; injection hx with hx; subst hx
  rw [corr_rewriteSpec rfl rfl hc] at hne ⊢
  split at hne
  · exact absurd rfl hne
  · rename_i hl
    simp only [hl, Bool.false_eq_true, if_false]
    exact rwReplace_src _ _ _ _ _ hne

/-- `replace_player`: the same for target-player fields -/
theorem replace_tgt (h : replacePlayer s sel to only is_ it lk = .ok (s', x)) (hs : Selects s sel src t0)
    (hx : s'.heap[x]? = some t') {isEff : Bool} {j : Nat} {c c' : Comp} (hc : Corr t0 t' isEff j c c')
    (hne : c'.tgt ≠ c.tgt) :
    it = true ∧ c'.tgt = some to ∧ (∀ o, only = some o → c.tgt = some o) ∧ c.tgt ≠ none ∧ c.tgt ≠ some (-1) := by
  obtain ⟨rfl, h2, _⟩ := replace_shape h hs
  rw [h2] at hx; injection hx with hx; subst hx
  rw [corr_rewriteSpec rfl rfl hc] at hne ⊢
  split at hne
  · exact absurd rfl hne
  · rename_i hl
    simp only [hl, Bool.false_eq_true, if_false]
    exact rwReplace_tgt _ _ _ _ _ hne

/-! ## `copy_trigger_tree_per_player`

Standing hypothesis `hO`: the display order holds trigger indices (no negative entry) – the manager maintains
this; it rules out Python's negative-index wrap-around in `self.triggers[index]`.
The *frame* of an object (`frame t`) is its conditions and its effects up to the targets of (de)activation effects;
what happens to those targets is the subject of C06. -/

variable {fixed : Bool} {fuel : Nat} {g : GroupBy} {nt : List (Int × List Nat)} {l srcs : List Nat} {i y : Nat}

/-- **the sources are not modified (tree)**: every object of the old state – in particular every trigger of the
source tree – is still at its address with the same conditions and the same effects; only the `trigger_id`
of (de)activation effects may have been renumbered (by the final `move_triggers`), and its own name / trigger id -/
theorem tree_source_components_unmodified
    (h : copyTreePerPlayer fixed fuel s a sel g = .ok (s', nt)) (hO : ∀ i ∈ s.order, 0 ≤ i)
    {t : Trig} (hy : s.heap[y]? = some t) :
    ∃ t1 : Trig, s'.heap[y]? = some t1 ∧ t1.conds = t.conds ∧ t1.effs.length = t.effs.length ∧
      ∀ (j : Nat) (e e' : Comp), t.effs[j]? = some e → t1.effs[j]? = some e' →
        e'.kind = e.kind ∧ e'.src = e.src ∧ e'.tgt = e.tgt ∧ e'.rest = e.rest ∧ (isAct e.kind = false → e'.link = e.link) := by
  obtain ⟨_, _, _, _, _, _, _, _, hF, _⟩ := copyTree_ok h hO
  have h1 : (frames s.heap)[y]? = some (frame t) := by rw [frames_getElem?, hy]; rfl
  have h2 := prefix_getElem? hF h1
  rw [frames_getElem?] at h2
  cases ht1 : s'.heap[y]? with
  | none => rw [ht1] at h2; cases h2
  | some t1 =>
    rw [ht1] at h2
    simp only [Option.map_some] at h2
    injection h2 with h2
    unfold frame at h2
    injection h2 with hc he
    refine ⟨t1, rfl, hc, ?_, ?_⟩
    · have := congrArg List.length he; simpa using this
    · intro j e e' hj hj'
      have e1 : (t1.effs.map stripLink)[j]? = some (stripLink e') := by rw [List.getElem?_map, hj']; rfl
      rw [he, List.getElem?_map, hj] at e1
      injection e1 with e1
      exact sameUpToLink_of_strip e1.symm

/-- **one copy per requested player and tree node**: the result has the keys `from_player :: owners a`; under
`from_player` it lists the source objects of the tree nodes `known` (the node list the search produced, in
search order); every other key lists exactly one fresh object per entry of `known`. With the repair
(`fixed = true`) no node occurs twice in `known`. -/
theorem tree_one_copy_per_player
    (h : copyTreePerPlayer fixed fuel s a sel g = .ok (s', nt)) (hO : ∀ i ∈ s.order, 0 ≤ i) :
    nt.map (·.1) = a.frm :: owners a ∧
    ∃ ti di src known srcs,
      resolve s sel = .ok (ti, di, src) ∧ dfs fixed s fuel src [ti] = .ok known ∧ nodeAddrs s known = .ok srcs ∧
      (fixed = true → known.Nodup) ∧ srcs.length = known.length ∧
      (a.frm, srcs) ∈ nt ∧
      ∀ p l, (p, l) ∈ nt → p ≠ a.frm → l.length = known.length ∧ ∀ x ∈ l, s.heap.length ≤ x ∧ x < s'.heap.length := by
  obtain ⟨ti, di, src, known, srcs, h1, h2, h3, hF, h5, h6, h7, h8⟩ := copyTree_ok h hO
  have hnod : (nt.map (·.1)).Nodup := by
    rw [h5, List.nodup_cons]
    exact ⟨frm_not_mem_owners a, (owners_spec a).1⟩
  have hlen : ∀ {k : List Int} {r : List Nat}, nodeAddrs s k = .ok r → r.length = k.length := by
    intro k
    induction k with
    | nil => intro r hr; simp only [nodeAddrs] at hr; injection hr with hr; subst hr; rfl
    | cons i k ih =>
      intro r hr
      obtain ⟨y, ys, _, hys, rfl⟩ := nodeAddrs_cons hr
      simp [ih hys]
  refine ⟨h5, ti, di, src, known, srcs, h1, h2, h3, ?_, hlen h3, ?_, ?_⟩
  · intro hf; subst hf; exact dfs_nodup h2 (by simp)
  · rw [← h6]; exact lookupL_mem (by rw [h5]; exact List.mem_cons_self)
  · intro p l hp hne
    have hpo : p ∈ owners a := by
      have : p ∈ nt.map (·.1) := List.mem_map.mpr ⟨(p, l), hp, rfl⟩
      rw [h5] at this
      rcases List.mem_cons.mp this with e | e
      · exact absurd e hne
      · exact e
    have hl := mem_lookupL hnod hp
    obtain ⟨g1, g2⟩ := h8 p hpo
    rw [hl] at g1 g2
    refine ⟨by rw [g1, hlen h3], ?_⟩
    intro x hx
    obtain ⟨i, hi, hxi⟩ := List.mem_iff_getElem.mp hx
    have hxi' : l[i]? = some x := by rw [List.getElem?_eq_getElem hi, hxi]
    have hi' : i < srcs.length := g1 ▸ hi
    obtain ⟨q1, t0, _, q3⟩ := g2 i x srcs[i] hxi' (List.getElem?_eq_getElem hi')
    refine ⟨q1, ?_⟩
    have := getElem?_lt q3
    simpa [frames] using this

/-- **the clauses for tree copies**: let `x` be the `i`-th object returned for player `p ≠ from_player` and `y` the
`i`-th source object (returned under `from_player`), with values `t'` (after) and `t0` (before). Then `t'` has the
frame of the rewritten `t0`: for every condition / effect `c` of `t0` and the component `c'` at the same place of `t'`
* frame: `kind` and `rest` are equal, `link` too unless `c` is a (de)activation effect;
* locked components keep both player fields;
* the source-player field changes only if source changes are enabled, then it becomes `p`, and under
  `change_from_player_only` only if it was `from_player`; likewise the target-player field. -/
theorem tree_copy_clauses
    (h : copyTreePerPlayer fixed fuel s a sel g = .ok (s', nt)) (hO : ∀ i ∈ s.order, 0 ≤ i)
    (hp : (p, l) ∈ nt) (hne : p ≠ a.frm) (hfrm : (a.frm, srcs) ∈ nt)
    (hx : l[i]? = some x) (hy : srcs[i]? = some y) (ht0 : s.heap[y]? = some t0) (ht' : s'.heap[x]? = some t') :
    t'.conds.length = t0.conds.length ∧ t'.effs.length = t0.effs.length ∧
    ∀ isEff j c c', Corr t0 t' isEff j c c' →
      (c'.kind = c.kind ∧ c'.rest = c.rest ∧ (isAct c.kind = false → c'.link = c.link)) ∧
      (lockedAt a.lock isEff j c = true → c'.src = c.src ∧ c'.tgt = c.tgt) ∧
      (c'.src ≠ c.src → a.flags.incSrc = true ∧ c'.src = some p ∧ (a.flags.fromOnly = true → c.src = some a.frm)) ∧
      (c'.tgt ≠ c.tgt → a.flags.incTgt = true ∧ c'.tgt = some p ∧ (a.flags.fromOnly = true → c.tgt = some a.frm)) := by
  obtain ⟨ti, di, src, known, srcs', h1, h2, h3, hF, h5, h6, h7, h8⟩ := copyTree_ok h hO
  have hnod : (nt.map (·.1)).Nodup := by
    rw [h5, List.nodup_cons]
    exact ⟨frm_not_mem_owners a, (owners_spec a).1⟩
  have hs : srcs' = srcs := by rw [← h6]; exact mem_lookupL hnod hfrm
  subst hs
  have hpo : p ∈ owners a := by
    have : p ∈ nt.map (·.1) := List.mem_map.mpr ⟨(p, l), hp, rfl⟩
    rw [h5] at this
    rcases List.mem_cons.mp this with e | e
    · exact absurd e hne
    · exact e
  obtain ⟨_, g2⟩ := h8 p hpo
  rw [mem_lookupL hnod hp] at g2
  obtain ⟨_, t0', q2, q3⟩ := g2 i x y hx hy
  rw [ht0] at q2; injection q2 with q2; subst q2
  rw [frames_getElem?, ht'] at q3
  simp only [Option.map_some] at q3
  injection q3 with q3
  rw [← frame_rewriteSpec _ _ _ (stripLink_rwCopy _ _ _)] at q3
  have hlenc : t'.conds.length = t0.conds.length := by
    have := congrArg (fun f => f.1.length) q3
    simpa [frame, rewriteSpec] using this
  have hlene : t'.effs.length = t0.effs.length := by
    have := congrArg (fun f => f.2.length) q3
    simpa [frame, rewriteSpec] using this
  refine ⟨hlenc, hlene, ?_⟩
  intro isEff j c c' hc
  obtain ⟨k1, k2, k3, k4, k5⟩ := corr_of_frame q3 hc
  by_cases hl : lockedAt a.lock isEff j c = true
  · simp only [hl, if_true] at k1 k2 k3 k4 k5
    exact ⟨⟨k1, k4, k5⟩, fun _ => ⟨k2, k3⟩, fun hn => absurd k2 hn, fun hn => absurd k3 hn⟩
  · simp only [hl, Bool.false_eq_true, if_false] at k1 k2 k3 k4 k5
    obtain ⟨f1, f2, f3⟩ := rwCopy_frame a.flags a.frm p c
    refine ⟨⟨k1.trans f1, k4.trans f3, ?_⟩, fun hl' => absurd hl' hl, ?_, ?_⟩
    · intro hact
      rw [k5 (f1 ▸ hact), f2]
    · intro hn
      rw [k2] at hn ⊢
      obtain ⟨r1, r2, r3, _⟩ := rwCopy_src _ _ _ _ hn
      exact ⟨r1, r2, r3⟩
    · intro hn
      rw [k3] at hn ⊢
      obtain ⟨r1, r2, r3, _⟩ := rwCopy_tgt _ _ _ _ hn
      exact ⟨r1, r2, r3⟩

/-! ## F16 – the pinned tree search lists a doubly linked target twice (`fixed = false`)

`dupS`: trigger 0 holds an activate *and* a deactivate effect on trigger 1. The pinned search returns the node
list `[0, 1, 1]`; consequently (by `tree_one_copy_per_player`, whose per-player list length is the length of that
node list) trigger 1 is copied twice per player, and with `GroupBy.TRIGGER` the same source object (address 1)
ends up twice in the trigger list. With the repair the node list is `[0, 1]`. -/

theorem tree_duplicate_nodes_counter :
    dfs false dupS 6 0 [0] = .ok [0, 1, 1] ∧ ¬ ([0, 1, 1] : List Int).Nodup ∧
    treeDictOf (copyTreePerPlayer false 6 dupS dupA (.index 0) .none) = some [(1, [0, 1, 1]), (2, [2, 3, 4])] ∧
    listOf (copyTreePerPlayer false 6 dupS dupA (.index 0) .trigger) = some [0, 2, 1, 3, 1, 4] := by
  refine ⟨rfl, by decide, by decide, by decide⟩

theorem tree_duplicate_nodes_fixed :
    dfs true dupS 6 0 [0] = .ok [0, 1] ∧
    treeDictOf (copyTreePerPlayer true 6 dupS dupA (.index 0) .none) = some [(1, [0, 1]), (2, [2, 3])] ∧
    listOf (copyTreePerPlayer true 6 dupS dupA (.index 0) .trigger) = some [0, 2, 1, 3] := by
  refine ⟨rfl, by decide, by decide⟩

/-! ## non-vacuity: the hypotheses are met by ordinary calls, and the clauses bite -/

-- a successful call with a reordered request, GAIA appended, the source player skipped
example : dictOf (copyPerPlayer exS exA (.index 0)) = some [(3, 2), (2, 3), (0, 4)] := by decide
example : owners exA = [3, 2, 0] ∧ requested exA = [3, 1, 2] ∧ effPlayers exA = [3, 1, 2, 0] := by decide
example : Selects exS (.index 0) 0 exT0 := ⟨0, 1, rfl, rfl⟩
example : Selects exS (.display 1) 0 exT0 := ⟨0, 1, rfl, rfl⟩
example : Selects exS (.object 0) 0 exT0 := ⟨0, 1, rfl, rfl⟩
-- the copy for player 3: the condition and effect 0 (source = from_player) change, effect 1 is locked by index and
-- is not the from-player anyway, effect 2 has source -1 and is skipped although its target is the from-player
example : compsOf (copyPerPlayer exS exA (.index 0)) 2 =
    some ([{ kind := 3, src := some 3, tgt := some (-1), link := 0, rest := 7 }],
          [{ kind := 11, src := some 3, tgt := some 2, link := -1, rest := 1 },
           { kind := 11, src := some 2, tgt := none, link := -1, rest := 2 },
           { kind := 8, src := some (-1), tgt := some 1, link := 1, rest := 3 }]) := by decide
-- the source keeps its components
example : compsOf (copyPerPlayer exS exA (.index 0)) 0 = some (exT0.conds, exT0.effs) := by decide
-- everything enabled: an unset (`None`) target becomes the player as well – allowed by the property text
example : compsOf (copyPerPlayer exS exB (.index 0)) 3 =
    some ([{ kind := 3, src := some 3, tgt := some 3, link := 0, rest := 7 }],
          [{ kind := 11, src := some 3, tgt := some 3, link := -1, rest := 1 },
           { kind := 11, src := some 3, tgt := some 3, link := -1, rest := 2 },
           { kind := 8, src := some (-1), tgt := some 1, link := 1, rest := 3 }]) := by decide
example : lockedAt exA.lock true 1 { kind := 11, src := some 2, tgt := none, link := -1, rest := 2 } = true := by decide
example : Corr exT0 exT0 true 1 { kind := 11, src := some 2, tgt := none, link := -1, rest := 2 }
    { kind := 11, src := some 2, tgt := none, link := -1, rest := 2 } := ⟨rfl, rfl⟩
-- replace_player: only the field equal to `only_change_from` changes; the `continue` skips the target half
example : compsOf (replacePlayer exS (.index 0) 5 (some 1) true true {}) 0 =
    some ([{ kind := 3, src := some 5, tgt := some (-1), link := 0, rest := 7 }],
          [{ kind := 11, src := some 5, tgt := some 2, link := -1, rest := 1 },
           { kind := 11, src := some 2, tgt := none, link := -1, rest := 2 },
           { kind := 8, src := some (-1), tgt := some 5, link := 1, rest := 3 }]) := by decide
-- a tree copy (cycle 0 <-> 1) grouped by player: the copies' activation links point at the copies
example : treeDictOf (copyTreePerPlayer false 6 exS exB (.index 0) .player) =
    some [(1, [0, 1]), (2, [2, 9]), (3, [3, 10]), (4, [4, 11]), (5, [5, 12]), (6, [6, 13]), (7, [7, 14]), (8, [8, 15])] := by
  decide
example : ∀ i ∈ exS.order, 0 ≤ i := by decide
-- an invalid player id is rejected exactly when an assignment would be reached
example : dictOf (copyPerPlayer exS { exA with players := some [9] } (.index 0)) = none := by decide
example : dictOf (copyPerPlayer exS { exA with players := some [9], flags := { fromOnly := true, incSrc := false, incTgt := false } }
    (.index 0)) = some [(9, 2), (0, 3)] := by decide

end Aoe.Props.C08
