import Aoe.Lemmas.PerPlayerHeap
/-!
# C08 – per-player copies change only the player fields they are allowed to change

Theorems about the model `Aoe.PerPlayer` of `copy_trigger_per_player`, `replace_player` and
`copy_trigger_tree_per_player`, for **all** states, triggers, flag combinations, locks and player lists.

Vocabulary (defined in `Aoe.Lemmas.PerPlayerHeap`):
* `Selects s sel src t0` – `sel` resolves in `s` to the trigger object at address `src`, whose value is `t0`;
* `Corr t0 t' isEff j c c'` – `c` is condition (`isEff = false`) / effect (`isEff = true`) number `j` of `t0`
  and `c'` is the one at the same place of `t'`;
* `lockedAt lk isEff j c` – the `TriggerCELock` `lk` locks that component (all / by index / by type);
* `owners a` – the dict keys of the result: the requested players (default 1..8, GAIA appended when asked and
  missing) without the source player, first occurrences, in request order.
A component is `{kind, src, tgt, link, rest}`; `rest` stands for every attribute the property calls "non-player".
-/
namespace Aoe.Props.C08
open Aoe.PerPlayer

variable {s s' : State} {a : Args} {sel : Sel} {d : List (Int × Nat)} {src x : Nat} {p : Int} {t0 t' : Trig}

/-! ## `copy_trigger_per_player` -/

/-- every returned copy is the componentwise rewriting of the source (the shape all clauses are read off) -/
theorem copy_shape (h : copyPerPlayer s a sel = .ok (s', d)) (hs : Selects s sel src t0) (hd : (p, x) ∈ d)
    (hx : s'.heap[x]? = some t') :
    ∃ k, t' = rewriteSpec (rwCopy a.flags a.frm p) a.lock { t0 with tid := k, name := t0.name ++ suffix p } := by
  obtain ⟨ti, di, src', t0', news, h1, h2, _, _, _, _, _, h8⟩ := copyPerPlayer_ok h
  obtain ⟨ti', di', hs1, hs2⟩ := hs
  rw [h1] at hs1; injection hs1 with hs1; injection hs1 with _ hs1; injection hs1 with _ hs1; subst hs1
  rw [h2] at hs2; injection hs2 with hs2; subst hs2
  obtain ⟨_, _, _, k, hk⟩ := h8 p x hd
  rw [hk] at hx; injection hx with hx
  exact ⟨k, by rw [← hx, mkCopy_eq]⟩

/-- **one copy per requested player**: the result has exactly the keys `owners a`, in that order; its values
are pairwise different, fresh (not objects of the old state) and listed in the manager; the number of new
objects is the number of requests other than the source player; the old list is a prefix of the new one. -/
theorem one_copy_per_player (h : copyPerPlayer s a sel = .ok (s', d)) :
    d.map (·.1) = owners a ∧ (d.map (·.2)).Nodup ∧
    s'.heap.length = s.heap.length + ((effPlayers a).filter (· != a.frm)).length ∧
    s'.list = s.list ++ List.range' s.heap.length ((effPlayers a).filter (· != a.frm)).length ∧
    (∀ p x, (p, x) ∈ d → s.heap.length ≤ x ∧ x < s'.heap.length ∧ x ∈ s'.list) := by
  obtain ⟨ti, di, src', t0', news, h1, h2, h3, h4, h5, _, h7, h8⟩ := copyPerPlayer_ok h
  refine ⟨h7, copyPerPlayer_vals_nodup h, by rw [h3]; simp [h4], by rw [h5, h4], ?_⟩
  intro p x hd
  obtain ⟨_, _, hge, k, hk⟩ := h8 p x hd
  have hlt : x < s'.heap.length := by
    rcases Nat.lt_or_ge x s'.heap.length with h | h
    · exact h
    · rw [List.getElem?_eq_none h] at hk; cases hk
  refine ⟨hge, hlt, ?_⟩
  rw [h5, List.mem_append, List.mem_range']
  right
  refine ⟨x - s.heap.length, ?_, by omega⟩
  rw [h3] at hlt; simp at hlt; omega

/-- who the owners are: everybody requested (`requested a` = `create_copy_for_players`, by default 1..8), plus
GAIA when `include_gaia`, except the source player; nobody twice -/
theorem owners_spec (a : Args) :
    (owners a).Nodup ∧
    (∀ p, p ∈ owners a ↔ p ≠ a.frm ∧ (p ∈ requested a ∨ (a.gaia = true ∧ p = 0))) := by
  refine ⟨nodup_foldl_addKey _ _ List.nodup_nil, ?_⟩
  intro p
  unfold owners
  rw [mem_foldl_addKey, effPlayers_eq]
  simp only [List.not_mem_nil, false_or, List.mem_filter, bne_iff_ne, ne_eq]
  by_cases hg : (a.gaia && !(requested a).contains 0) = true
  · simp only [hg, if_true, List.mem_append, List.mem_singleton]
    simp only [Bool.and_eq_true] at hg
    constructor
    · rintro ⟨hm | hm, hne⟩
      · exact ⟨hne, Or.inl hm⟩
      · exact ⟨hne, Or.inr ⟨hg.1, hm⟩⟩
    · rintro ⟨hne, hm | ⟨_, hm⟩⟩
      · exact ⟨Or.inl hm, hne⟩
      · exact ⟨Or.inr hm, hne⟩
  · simp only [hg, Bool.false_eq_true, if_false]
    constructor
    · rintro ⟨hm, hne⟩
      exact ⟨hne, Or.inl hm⟩
    · rintro ⟨hne, hm | ⟨hga, rfl⟩⟩
      · exact ⟨hm, hne⟩
      · simp only [Bool.and_eq_true, not_and, hga, true_implies] at hg
        exact ⟨by simpa using hg, hne⟩

/-- for a request without duplicates the owner list is literally the request without the source player -/
theorem owners_of_nodup (a : Args) (hn : (effPlayers a).Nodup) :
    owners a = (effPlayers a).filter (· != a.frm) := by
  unfold owners
  rw [foldl_addKey_of_nodup _ _ (by simpa using hn.sublist List.filter_sublist)]
  simp

/-- **frame**: a copy has as many conditions and effects as the source, and every non-player attribute
(`kind`, `link`, `rest`) of every one of them equals the source's -/
theorem copy_frame (h : copyPerPlayer s a sel = .ok (s', d)) (hs : Selects s sel src t0) (hd : (p, x) ∈ d)
    (hx : s'.heap[x]? = some t') :
    t'.conds.length = t0.conds.length ∧ t'.effs.length = t0.effs.length ∧
    ∀ isEff j c c', Corr t0 t' isEff j c c' → c'.kind = c.kind ∧ c'.link = c.link ∧ c'.rest = c.rest := by
  obtain ⟨k, rfl⟩ := copy_shape h hs hd hx
  refine ⟨(length_rewriteSpec _ _ _).1, (length_rewriteSpec _ _ _).2, ?_⟩
  intro isEff j c c' hc
  rw [corr_rewriteSpec rfl rfl hc]
  split
  · exact ⟨rfl, rfl, rfl⟩
  · exact rwCopy_frame _ _ _ _

/-- **locked components are untouched** (lock everything / by index / by type) -/
theorem locked_untouched (h : copyPerPlayer s a sel = .ok (s', d)) (hs : Selects s sel src t0) (hd : (p, x) ∈ d)
    (hx : s'.heap[x]? = some t') {isEff : Bool} {j : Nat} {c c' : Comp} (hc : Corr t0 t' isEff j c c')
    (hl : lockedAt a.lock isEff j c = true) : c' = c := by
  obtain ⟨k, rfl⟩ := copy_shape h hs hd hx
  rw [corr_rewriteSpec rfl rfl hc, hl]; rfl

/-- **source-player fields change only if source changes are enabled** -/
theorem src_only_if_enabled (h : copyPerPlayer s a sel = .ok (s', d)) (hs : Selects s sel src t0)
    (hd : (p, x) ∈ d) (hx : s'.heap[x]? = some t') {isEff : Bool} {j : Nat} {c c' : Comp}
    (hc : Corr t0 t' isEff j c c') (hne : c'.src ≠ c.src) : a.flags.incSrc = true := by
  obtain ⟨k, rfl⟩ := copy_shape h hs hd hx
  rw [corr_rewriteSpec rfl rfl hc] at hne
  split at hne
  · exact absurd rfl hne
  · exact (rwCopy_src _ _ _ _ hne).1

/-- **target-player fields change only if target changes are enabled** -/
theorem tgt_only_if_enabled (h : copyPerPlayer s a sel = .ok (s', d)) (hs : Selects s sel src t0)
    (hd : (p, x) ∈ d) (hx : s'.heap[x]? = some t') {isEff : Bool} {j : Nat} {c c' : Comp}
    (hc : Corr t0 t' isEff j c c') (hne : c'.tgt ≠ c.tgt) : a.flags.incTgt = true := by
  obtain ⟨k, rfl⟩ := copy_shape h hs hd hx
  rw [corr_rewriteSpec rfl rfl hc] at hne
  split at hne
  · exact absurd rfl hne
  · exact (rwCopy_tgt _ _ _ _ hne).1

/-- **kept if not the from-player**: under `change_from_player_only` a field that is not equal to the source
player (this includes unset `None` and `-1` fields) keeps its value -/
theorem kept_if_not_from_player (h : copyPerPlayer s a sel = .ok (s', d)) (hs : Selects s sel src t0)
    (hd : (p, x) ∈ d) (hx : s'.heap[x]? = some t') {isEff : Bool} {j : Nat} {c c' : Comp}
    (hc : Corr t0 t' isEff j c c') (hfo : a.flags.fromOnly = true) :
    (c.src ≠ some a.frm → c'.src = c.src) ∧ (c.tgt ≠ some a.frm → c'.tgt = c.tgt) := by
  obtain ⟨k, rfl⟩ := copy_shape h hs hd hx
  rw [corr_rewriteSpec rfl rfl hc]
  split
  · exact ⟨fun _ => rfl, fun _ => rfl⟩
  · constructor
    · intro hne
      apply Classical.byContradiction
      intro hch
      exact hne ((rwCopy_src _ _ _ _ hch).2.2.1 hfo)
    · intro hne
      apply Classical.byContradiction
      intro hch
      exact hne ((rwCopy_tgt _ _ _ _ hch).2.2.1 hfo)

/-- **every field that changes becomes the copy's player** -/
theorem changed_becomes_player (h : copyPerPlayer s a sel = .ok (s', d)) (hs : Selects s sel src t0)
    (hd : (p, x) ∈ d) (hx : s'.heap[x]? = some t') {isEff : Bool} {j : Nat} {c c' : Comp}
    (hc : Corr t0 t' isEff j c c') :
    (c'.src ≠ c.src → c'.src = some p) ∧ (c'.tgt ≠ c.tgt → c'.tgt = some p) := by
  obtain ⟨k, rfl⟩ := copy_shape h hs hd hx
  rw [corr_rewriteSpec rfl rfl hc]
  split
  · exact ⟨fun hne => absurd rfl hne, fun hne => absurd rfl hne⟩
  · exact ⟨fun hne => (rwCopy_src _ _ _ _ hne).2.1, fun hne => (rwCopy_tgt _ _ _ _ hne).2.1⟩

/-- a component whose source player is the "unset" value `-1` is left alone entirely (the `continue` of the loops) -/
theorem unset_source_untouched (h : copyPerPlayer s a sel = .ok (s', d)) (hs : Selects s sel src t0)
    (hd : (p, x) ∈ d) (hx : s'.heap[x]? = some t') {isEff : Bool} {j : Nat} {c c' : Comp}
    (hc : Corr t0 t' isEff j c c') (hu : c.src = some (-1)) : c' = c := by
  obtain ⟨k, rfl⟩ := copy_shape h hs hd hx
  rw [corr_rewriteSpec rfl rfl hc]
  split
  · rfl
  · simp [rwCopy, hu]

/-- **the source is not modified**: every object of the old state is still at its address with the same
conditions, effects and trigger id – all but the selected source are literally unchanged, and the source itself
only has its name extended by ` (p<from_player>)`. What the function returns for the source player: nothing
(`from_player ∉ owners`); the source object stays where it was. -/
theorem source_components_unmodified (h : copyPerPlayer s a sel = .ok (s', d)) (hs : Selects s sel src t0) :
    s'.heap[src]? = some (renameSrc a.frm t0) ∧
    (∀ (y : Nat) (t : Trig), s.heap[y]? = some t → y ≠ src → s'.heap[y]? = some t) ∧
    (∀ (y : Nat) (t : Trig), s.heap[y]? = some t → ∃ t1 : Trig, s'.heap[y]? = some t1 ∧ t1.conds = t.conds ∧ t1.effs = t.effs ∧
      t1.tid = t.tid) ∧
    a.frm ∉ d.map (·.1) := by
  obtain ⟨ti, di, src', t0', news, h1, h2, h3, _, _, _, h7, _⟩ := copyPerPlayer_ok h
  obtain ⟨ti', di', hs1, hs2⟩ := hs
  rw [h1] at hs1; injection hs1 with hs1; injection hs1 with _ hs1; injection hs1 with _ hs1
  have hs1' := hs1.symm; subst hs1'
  rw [h2] at hs2; injection hs2 with hs2; have hs2' := hs2.symm; subst hs2'
  have key : ∀ (y : Nat) (t : Trig), s.heap[y]? = some t → s'.heap[y]? = some (if src = y then renameSrc a.frm t else t) := by
    intro y t hy
    have hlt : y < s.heap.length := by
      rcases Nat.lt_or_ge y s.heap.length with h | h
      · exact h
      · rw [List.getElem?_eq_none h] at hy; cases hy
    rw [h3, List.getElem?_append_left (by simpa using hlt), List.getElem?_modify, hy]
    by_cases e : src = y <;> simp [e]
  refine ⟨by simpa using key src t0 h2, ?_, ?_, ?_⟩
  · intro y t hy hne
    have : ¬ src = y := fun e => hne e.symm
    simpa [this] using key y t hy
  · intro y t hy
    refine ⟨_, key y t hy, ?_⟩
    by_cases e : src = y <;> simp [e, renameSrc]
  · rw [h7]
    intro hm
    exact ((owners_spec a).2 a.frm).mp hm |>.1 rfl

/-! ## `replace_player` (in place) -/

variable {to : Int} {only : Option Int} {is_ it : Bool} {lk : Lock}

/-- `replace_player` returns the selected object itself, rewritten componentwise in place; no object is created,
every other object, the trigger list and the display order are untouched -/
theorem replace_shape (h : replacePlayer s sel to only is_ it lk = .ok (s', x)) (hs : Selects s sel src t0) :
    x = src ∧ s'.heap[src]? = some (rewriteSpec (rwReplace is_ it to only) lk t0) ∧
    s'.heap.length = s.heap.length ∧ (∀ y, y ≠ src → s'.heap[y]? = s.heap[y]?) ∧
    s'.list = s.list ∧ s'.order = s.order := by
  obtain ⟨ti, di, t0', h1, h2, h3, h4, h5⟩ := replacePlayer_ok h
  obtain ⟨ti', di', hs1, hs2⟩ := hs
  rw [h1] at hs1; injection hs1 with hs1; injection hs1 with _ hs1; injection hs1 with _ hs1
  have hs1' := hs1.symm; subst hs1'
  rw [h2] at hs2; injection hs2 with hs2; have hs2' := hs2.symm; subst hs2'
  refine ⟨rfl, ?_, by rw [h3]; simp, ?_, h4, h5⟩
  · rw [h3, List.getElem?_modify, h2]; simp
  · intro y hy
    have : ¬ src = y := fun e => hy e.symm
    rw [h3, List.getElem?_modify]; simp [this]

/-- frame of `replace_player`: same number of components, all non-player attributes kept -/
theorem replace_frame (h : replacePlayer s sel to only is_ it lk = .ok (s', x)) (hs : Selects s sel src t0)
    (hx : s'.heap[x]? = some t') :
    t'.conds.length = t0.conds.length ∧ t'.effs.length = t0.effs.length ∧ t'.name = t0.name ∧ t'.tid = t0.tid ∧
    ∀ isEff j c c', Corr t0 t' isEff j c c' → c'.kind = c.kind ∧ c'.link = c.link ∧ c'.rest = c.rest := by
  obtain ⟨rfl, h2, _⟩ := replace_shape h hs
  rw [h2] at hx; injection hx with hx; subst hx
  refine ⟨(length_rewriteSpec _ _ _).1, (length_rewriteSpec _ _ _).2, rfl, rfl, ?_⟩
  intro isEff j c c' hc
  rw [corr_rewriteSpec rfl rfl hc]
  split
  · exact ⟨rfl, rfl, rfl⟩
  · exact rwReplace_frame _ _ _ _ _

/-- locked components of the replaced trigger are untouched -/
theorem replace_locked_untouched (h : replacePlayer s sel to only is_ it lk = .ok (s', x))
    (hs : Selects s sel src t0) (hx : s'.heap[x]? = some t') {isEff : Bool} {j : Nat} {c c' : Comp}
    (hc : Corr t0 t' isEff j c c') (hl : lockedAt lk isEff j c = true) : c' = c := by
  obtain ⟨rfl, h2, _⟩ := replace_shape h hs
  rw [h2] at hx; injection hx with hx; subst hx
  rw [corr_rewriteSpec rfl rfl hc, hl]; rfl

/-- `replace_player`: a source-player field changes only if source changes are enabled, only if it was set
(neither `None` nor `-1`), only if it equals `only_change_from` when that is given, and it becomes `to_player` -/
theorem replace_src (h : replacePlayer s sel to only is_ it lk = .ok (s', x)) (hs : Selects s sel src t0)
    (hx : s'.heap[x]? = some t') {isEff : Bool} {j : Nat} {c c' : Comp} (hc : Corr t0 t' isEff j c c')
    (hne : c'.src ≠ c.src) :
    is_ = true ∧ c'.src = some to ∧ (∀ o, only = some o → c.src = some o) ∧ c.src ≠ none ∧ c.src ≠ some (-1) := by
  obtain ⟨rfl, h2, _⟩ := replace_shape h hs
  rw [h2] at hx; injection hx with hx; subst hx
  rw [corr_rewriteSpec rfl rfl hc] at hne ⊢
  split at hne
  · exact absurd rfl hne
  · rename_i hl
    simp only [hl, Bool.false_eq_true, if_false]
    exact rwReplace_src _ _ _ _ _ hne

/-- `replace_player`: the same for target-player fields -/
theorem replace_tgt (h : replacePlayer s sel to only is_ it lk = .ok (s', x)) (hs : Selects s sel src t0)
    (hx : s'.heap[x]? = some t') {isEff : Bool} {j : Nat} {c c' : Comp} (hc : Corr t0 t' isEff j c c')
    (hne : c'.tgt ≠ c.tgt) :
    it = true ∧ c'.tgt = some to ∧ (∀ o, only = some o → c.tgt = some o) ∧ c.tgt ≠ none ∧ c.tgt ≠ some (-1) := by
  obtain ⟨rfl, h2, _⟩ := replace_shape h hs
  rw [h2] at hx; injection hx with hx; subst hx
  rw [corr_rewriteSpec rfl rfl hc] at hne ⊢
  split at hne
  · exact absurd rfl hne
  · rename_i hl
    simp only [hl, Bool.false_eq_true, if_false]
    exact rwReplace_tgt _ _ _ _ _ hne

end Aoe.Props.C08
