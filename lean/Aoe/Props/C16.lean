import Aoe.Lemmas.Versions
import Aoe.Lemmas.Creatable
import Aoe.Props.C15
import Aoe.Generated.Ob
/-!
# C16 – effect and condition constructors honour their name, arguments and defaults

Generic theorems about `addKw` / `addComp` / `runHelper` (every table, every argument list), the display-order update,
and the obligations on the regenerated helper tables (`helpers_ok_*`, by `decide +kernel`) with their consequence
`helper_spec_*` for every shipped version.
-/
namespace Aoe.Props.C16
open Aoe.Versions Aoe.Generated

/-- the keyword arguments are ones `_add_effect` accepts (otherwise Python raises `TypeError` at the call) -/
def ArgsOK (sig : Sig) (args : Dict) : Prop :=
  args.any (fun kv => !memN kv.1 sig.addParams || Nat.beq kv.1 sig.typeKey) = false

/-- **`_add_effect` / `_add_condition`, keyword dict**: if the call gets as far as the constructor then the type
exists in the table and the dict handed to the constructor has exactly the keys of the merged defaults
`{**defaults[0], **defaults[type]}`, the type key holds the forwarded type, every other key holds the supplied
non-`None` argument of the same name if there is one and the version's default for that type otherwise. -/
theorem addKw_spec {sig : Sig} {t : Table} {ty : Int} {args kw : Dict} (h : addKw sig t ty args = .ok kw) :
    ∃ d, defaultsFor t ty = some d ∧
      kw = d.map (fun kv => (kv.1, kwValue sig ty args kv.1 kv.2)) ∧
      dkeys kw = dkeys d ∧
      (∀ k, k ∈ dkeys d → k = sig.typeKey → dget kw k = some (.int ty)) ∧
      (∀ k v, k ∈ dkeys d → k ≠ sig.typeKey → argOf args k = some v → dget kw k = some v) ∧
      (∀ k, k ∈ dkeys d → k ≠ sig.typeKey → argOf args k = none → dget kw k = dget d k) := by
  unfold addKw at h
  split at h
  · cases h
  · cases hd : defaultsFor t ty with
    | none => simp [hd] at h; split at h <;> cases h
    | some d =>
      simp only [hd] at h
      have hk := fillKw_ok_keys h
      rw [fillKw_eq hk] at h
      cases h
      refine ⟨d, rfl, rfl, dkeys_map_val _ _, ?_, ?_, ?_⟩
      · intro k hk' he
        rw [dget_map_val]
        obtain ⟨v, hv⟩ := Option.isSome_iff_exists.1 (dget_isSome_iff.2 hk')
        rw [hv]
        simp [kwValue, he, nbeq_eq_decide]
      · intro k v hk' hne ha
        rw [dget_map_val]
        obtain ⟨v', hv⟩ := Option.isSome_iff_exists.1 (dget_isSome_iff.2 hk')
        simp [hv, kwValue, hne, nbeq_eq_decide, ha]
      · intro k hk' hne ha
        rw [dget_map_val]
        obtain ⟨v', hv⟩ := Option.isSome_iff_exists.1 (dget_isSome_iff.2 hk')
        simp [hv, kwValue, hne, nbeq_eq_decide, ha]

/-- **display order**: when the order array is a permutation of the existing indices, adding a component extends it
with exactly the new index -/
theorem order_extended (order : List Nat) (n : Nat) (h : order.Perm (List.range n)) :
    updateOrder order (n + 1) = .ok (order ++ [n]) := by
  have hlen : order.length = n := by rw [h.length_eq, List.length_range]
  have hmem : ∀ i, i ∈ order ↔ i < n := fun i => by rw [h.mem_iff, List.mem_range]
  unfold updateOrder
  have h1 : Nat.blt (n + 1) order.length = false := by
    rw [hlen]; cases hb : Nat.blt (n + 1) n
    · rfl
    · have := Nat.le_of_ble_eq_true hb; omega
  have h2 : Nat.blt order.length (n + 1) = true := by
    rw [hlen]; exact Nat.ble_eq_true_of_le (Nat.le_refl _)
  simp only [h1, h2, Bool.false_eq_true, if_false, if_true]
  rw [List.range_succ, appendMissing_append,
    appendMissing_of_all_mem order (List.range n) (fun i hi => (hmem i).2 (List.mem_range.1 hi))]
  have : memN n order = false := by
    cases hb : memN n order
    · rfl
    · exact absurd ((hmem n).1 (memN_iff.1 hb)) (Nat.lt_irrefl n)
  simp [appendMissing, this]

/-- **appended last**: a successful `Trig.add` puts the component at the end of the list -/
theorem add_appends {tr tr' : Trig} {o : Dict} (h : tr.add o = .ok tr') : tr'.comps = tr.comps ++ [o] := by
  unfold Trig.add at h
  split at h
  · cases h; rfl
  · cases h

theorem add_order {tr tr' : Trig} {o : Dict} (h : tr.add o = .ok tr')
    (hp : tr.order.Perm (List.range tr.comps.length)) : tr'.order = tr.order ++ [tr.comps.length] := by
  unfold Trig.add at h
  rw [order_extended _ _ hp] at h
  cases h; rfl

/-- **`_add_effect` / `_add_condition` completely** -/
theorem addComp_spec {c : Ctx} {t : Table} {ty : Int} {args : Dict} {tr tr' : Trig} {o : Dict}
    (h : addComp c t ty args tr = .ok (o, tr')) :
    ∃ kw, addKw c.sig t ty args = .ok kw ∧ construct c kw = .ok o ∧
      tr'.comps = tr.comps ++ [o] ∧
      (tr.order.Perm (List.range tr.comps.length) → tr'.order = tr.order ++ [tr.comps.length]) := by
  unfold addComp at h
  cases hk : addKw c.sig t ty args with
  | error e => simp [hk] at h
  | ok kw =>
    simp only [hk] at h
    cases hc : construct c kw with
    | error e => simp [hc] at h
    | ok o' =>
      simp only [hc] at h
      cases ha : tr.add o' with
      | error e => simp [ha] at h
      | ok tr'' =>
        simp only [ha, Except.ok.injEq, Prod.mk.injEq] at h
        obtain ⟨rfl, rfl⟩ := h
        exact ⟨kw, rfl, hc, add_appends ha, add_order ha⟩

/-! ## helpers -/

/-- the keyword arguments a well-formed helper hands on: every parameter under its own name, nothing else -/
theorem forwards_argOf {sig : Sig} {ms : List EnumMember} {hs : List Helper} {h : Helper}
    (hOK : helperOK sig ms hs h = true) (args : Dict) (k : Nat) :
    argOf (h.forwards.map (fun p => (p.1, par args p.2))) k = if k ∈ h.params then argOf args k else none := by
  simp only [helperOK, Bool.and_eq_true] at hOK
  obtain ⟨⟨⟨⟨⟨⟨⟨⟨⟨-, hsame⟩, -⟩, -⟩, hsub⟩, hsub2⟩, -⟩, -⟩, -⟩, -⟩ := hOK
  have hsame' : ∀ p ∈ h.forwards, p.1 = p.2 := fun p hp => by
    have := List.all_eq_true.1 hsame p hp
    simpa [nbeq_eq_decide] using this
  have hiff : k ∈ h.forwards.map (·.1) ↔ k ∈ h.params := by
    constructor
    · intro hk
      obtain ⟨p, hp, hpk⟩ := List.mem_map.1 hk
      exact subset_iff.1 hsub2 k (List.mem_map.2 ⟨p, hp, by rw [← hsame' p hp]; exact hpk⟩)
    · intro hk
      obtain ⟨p, hp, hpk⟩ := List.mem_map.1 (subset_iff.1 hsub k hk)
      exact List.mem_map.2 ⟨p, hp, by rw [hsame' p hp]; exact hpk⟩
  have key : ∀ (l : List (Nat × Nat)), (∀ p ∈ l, p.1 = p.2) →
      dget (l.map (fun p => (p.1, par args p.2))) k = if k ∈ l.map (·.1) then some (par args k) else none := by
    intro l hl
    induction l with
    | nil => simp [dget]
    | cons p r ih =>
      have hp := hl p (List.mem_cons_self ..)
      have ihr := ih (fun q hq => hl q (List.mem_cons_of_mem _ hq))
      simp only [List.map_cons, dget_cons, ihr, List.mem_cons]
      by_cases e : p.1 = k
      · simp [e, ← hp]
      · have : ¬ k = p.1 := fun x => e x.symm
        simp only [e, this, if_false, false_or]
  unfold argOf
  rw [key h.forwards hsame']
  by_cases hk : k ∈ h.params
  · simp only [hiff.2 hk, hk, if_true]
    unfold par
    cases dget args k with
    | none => rfl
    | some v => cases v <;> rfl
  · have : ¬ k ∈ h.forwards.map (·.1) := fun x => hk (hiff.1 x)
    simp only [this, hk, if_false]

theorem enumValue_eq (ms : List EnumMember) (n : Nat) : enumValue ms n = (memberNamed ms n).map (·.value) := by
  induction ms with
  | nil => rfl
  | cons m r ih =>
    simp only [enumValue, memberNamed]
    cases Nat.beq m.name n <;> simp [ih]

theorem argOf_of_not_key {args : Dict} {k : Nat} (h : k ∉ dkeys args) : argOf args k = none := by
  unfold argOf; rw [dget_none_iff.2 h]

/-- **one helper call, for every table**: a helper that satisfies `helperOK` creates a component of the enum member it
names; the dict handed to the constructor has the keys of the version's merged defaults for that type, holds the type,
every supplied non-`None` argument under the parameter's own name and the default everywhere else; the component is
appended last and a permutation display order is extended with its index. -/
theorem helper_spec {c : Ctx} {ms : List EnumMember} {hs : List Helper} {h : Helper}
    (hOK : helperOK c.sig ms hs h = true) {t : Table} {args : Dict} {tr tr' : Trig} {o : Dict}
    (hrun : runHelper c ms t h args tr = .ok (o, tr')) :
    ∃ m d kw, memberNamed ms h.const = some m ∧
      (h.deprecated = false → (stripUnderscore h.nameChars).map upperCode = m.nameChars) ∧
      defaultsFor t m.value = some d ∧ dkeys kw = dkeys d ∧
      (∀ k, k ∈ dkeys d → k = c.sig.typeKey → dget kw k = some (.int m.value)) ∧
      (∀ k v, k ∈ dkeys d → k ≠ c.sig.typeKey → argOf args k = some v → dget kw k = some v) ∧
      (∀ k, k ∈ dkeys d → k ≠ c.sig.typeKey → argOf args k = none → dget kw k = dget d k) ∧
      construct c kw = .ok o ∧ tr'.comps = tr.comps ++ [o] ∧
      (tr.order.Perm (List.range tr.comps.length) → tr'.order = tr.order ++ [tr.comps.length]) := by
  unfold runHelper at hrun
  split at hrun
  · cases hrun
  next hargs =>
  split at hrun
  · cases hrun
  rw [enumValue_eq] at hrun
  cases hm : memberNamed ms h.const with
  | none => simp [hm] at hrun
  | some m =>
    simp only [hm, Option.map_some] at hrun
    obtain ⟨kw, hkw, hc, happ, hord⟩ := addComp_spec hrun
    obtain ⟨d, hd, -, hkeys, htype, harg, hdef⟩ := addKw_spec hkw
    -- keys of `args` are parameters
    have hargs' : ∀ k, k ∉ h.params → argOf args k = none := by
      intro k hk
      apply argOf_of_not_key
      intro hmem
      obtain ⟨kv, hkv, rfl⟩ := List.mem_map.1 hmem
      have hall : args.any (fun kv => !memN kv.1 h.params) = false := by simpa using hargs
      have := List.any_eq_false.1 hall kv hkv
      simp only [Bool.not_eq_true, Bool.not_eq_false'] at this
      exact hk (memN_iff.1 (by simpa using this))
    have hfw : ∀ k, argOf (h.forwards.map (fun p => (p.1, par args p.2))) k = argOf args k := by
      intro k
      rw [forwards_argOf hOK]
      by_cases hk : k ∈ h.params
      · simp [hk]
      · simp [hk, hargs' k hk]
    have hname : h.deprecated = false → (stripUnderscore h.nameChars).map upperCode = m.nameChars := by
      intro hdep
      have := hOK
      simp only [helperOK, Bool.and_eq_true, hm, hdep] at this
      exact lbeq_iff.1 (by simpa using this.1.1.1.1.1.1.1.1.1)
    refine ⟨m, d, kw, rfl, hname, hd, hkeys, htype, ?_, ?_, hc, happ, hord⟩
    · intro k v hk hne ha; exact harg k v hk hne (by rw [hfw]; exact ha)
    · intro k hk hne ha; exact hdef k hk hne (by rw [hfw]; exact ha)

/-- the constructors hand every ordinary keyword through unchanged (`special` lists the few attributes they
normalise: selected ids, the armour/attack group, the area corners, the location reference, `item_id`) -/
theorem other_attributes_stored {c : Ctx} {kw o : Dict} (hinit : ∀ k ∈ dkeys kw, k ∈ c.sig.initParams)
    (h : construct c kw = .ok o) {k : Nat} (hk : k ∉ special c.names) : dget o k = dget kw k :=
  construct_other_attrs hinit h hk

/-- an area whose corners are ordered and both set (or both unset) is stored as given -/
theorem ordered_area_kept {x y : Int} (hxy : x ≤ y) (hfill : ¬ (x ≠ -1 ∧ y = -1)) :
    coordAxis (.int x) (.int y) = .ok (.int x, .int y) := coordAxis_id hxy hfill

/-- **C16 on the returned component** (well-formed table, well-formed helper): the component a helper returns has the
type the helper is named after, and every attribute outside `special` holds the supplied argument of the same name,
or the version's default for that type when none was supplied; it is appended last and the display order is extended
with its index. -/
theorem helper_component_spec {c : Ctx} {ms : List EnumMember} {hs : List Helper} {h : Helper}
    (hOK : helperOK c.sig ms hs h = true) {t : Table} (hT : tableOK c t = true) {args : Dict} {tr tr' : Trig} {o : Dict}
    (hrun : runHelper c ms t h args tr = .ok (o, tr')) :
    ∃ m d, memberNamed ms h.const = some m ∧
      (h.deprecated = false → (stripUnderscore h.nameChars).map upperCode = m.nameChars) ∧
      defaultsFor t m.value = some d ∧
      (c.sig.typeKey ∉ special c.names → dget o c.sig.typeKey = some (.int m.value)) ∧
      (∀ k v, k ∈ dkeys d → k ∉ special c.names → k ≠ c.sig.typeKey → argOf args k = some v → dget o k = some v) ∧
      (∀ k, k ∈ dkeys d → k ∉ special c.names → k ≠ c.sig.typeKey → argOf args k = none → dget o k = dget d k) ∧
      tr'.comps = tr.comps ++ [o] ∧
      (tr.order.Perm (List.range tr.comps.length) → tr'.order = tr.order ++ [tr.comps.length]) := by
  obtain ⟨m, d, kw, hm, hname, hd, hkeys, htype, harg, hdef, hc, happ, hord⟩ := helper_spec hOK hrun
  -- the merged defaults come from two entries of the table
  have hd' := hd
  unfold defaultsFor at hd'
  cases h0 : t.find? 0 with
  | none => simp [h0] at hd'
  | some e0 =>
    cases h1 : t.find? m.value with
    | none => simp [h0, h1] at hd'
    | some e =>
      simp only [h0, h1, Option.some.injEq] at hd'
      have he : e ∈ t := (find?_some h1).1
      obtain ⟨e0', h0', -, -, -, K0, KE, htk, -⟩ := C15.tableOK_entry hT he
      rw [h0] at h0'
      cases h0'
      have hinit : ∀ k ∈ dkeys kw, k ∈ c.sig.initParams := by
        intro k hk
        rw [hkeys, ← hd'] at hk
        rcases mem_dkeys_dmerge.1 hk with hk | hk
        · exact (K0 k hk).2
        · exact (KE k hk).2
      have htkd : c.sig.typeKey ∈ dkeys d := by
        rw [← hd']; exact mem_dkeys_dmerge.2 (Or.inl htk)
      refine ⟨m, d, hm, hname, hd, ?_, ?_, ?_, happ, hord⟩
      · intro hs
        rw [other_attributes_stored hinit hc hs]
        exact htype _ htkd rfl
      · intro k v hk hs hne ha
        rw [other_attributes_stored hinit hc hs]
        exact harg k v hk hne ha
      · intro k hk hs hne ha
        rw [other_attributes_stored hinit hc hs]
        exact hdef k hk hne ha

/-! ## the regenerated helper tables -/

/-- every `new_effect.*` helper of the repository satisfies `helperOK`, every `EffectId` member has exactly one
non-deprecated helper (witness function: `helpersBad`) -/
theorem helpers_ok_effects :
    helpersOK Helpers.effectSig Helpers.effectMembers Helpers.effectHelpers = true := by decide +kernel

theorem helpers_ok_conditions :
    helpersOK Helpers.conditionSig Helpers.conditionMembers Helpers.conditionHelpers = true := by decide +kernel

theorem helper_ok_of_mem {sig : Sig} {ms : List EnumMember} {hs : List Helper} (h : helpersOK sig ms hs = true)
    {x : Helper} (hx : x ∈ hs) : helperOK sig ms hs x = true := by
  simp only [helpersOK, Bool.and_eq_true] at h
  exact List.all_eq_true.1 h.1.1.1.1 x hx

/-- **C16 for every effect helper of the repository in every shipped version** (both armour/attack layouts) -/
theorem effect_helper_spec {vt : VersionTable} (_ : vt ∈ Versions.all) {h : Helper} (hh : h ∈ Helpers.effectHelpers)
    (w : Nat) {args : Dict} {tr tr' : Trig} {o : Dict}
    (hrun : runHelper (Helpers.ctxE w) Helpers.effectMembers vt.effects h args tr = .ok (o, tr')) :
    ∃ m d kw, memberNamed Helpers.effectMembers h.const = some m ∧
      (h.deprecated = false → (stripUnderscore h.nameChars).map upperCode = m.nameChars) ∧
      defaultsFor vt.effects m.value = some d ∧ dkeys kw = dkeys d ∧
      (∀ k, k ∈ dkeys d → k = Helpers.effectSig.typeKey → dget kw k = some (.int m.value)) ∧
      (∀ k v, k ∈ dkeys d → k ≠ Helpers.effectSig.typeKey → argOf args k = some v → dget kw k = some v) ∧
      (∀ k, k ∈ dkeys d → k ≠ Helpers.effectSig.typeKey → argOf args k = none → dget kw k = dget d k) ∧
      construct (Helpers.ctxE w) kw = .ok o ∧ tr'.comps = tr.comps ++ [o] ∧
      (tr.order.Perm (List.range tr.comps.length) → tr'.order = tr.order ++ [tr.comps.length]) :=
  helper_spec (c := Helpers.ctxE w) (helper_ok_of_mem helpers_ok_effects hh) hrun

/-- the type key is not one of the attributes the constructors normalise (table fact) -/
theorem typeKey_plain : Helpers.effectSig.typeKey ∉ special Helpers.attrNames ∧
    Helpers.conditionSig.typeKey ∉ special Helpers.attrNames := by decide +kernel

/-- **C16 for every effect helper of the repository in every shipped version, on the returned component** -/
theorem effect_helper_component {vt : VersionTable} (hv : vt ∈ Versions.all) {h : Helper} (hh : h ∈ Helpers.effectHelpers)
    (w : Nat) {args : Dict} {tr tr' : Trig} {o : Dict}
    (hrun : runHelper (Helpers.ctxE w) Helpers.effectMembers vt.effects h args tr = .ok (o, tr')) :
    ∃ m d, memberNamed Helpers.effectMembers h.const = some m ∧
      (h.deprecated = false → (stripUnderscore h.nameChars).map upperCode = m.nameChars) ∧
      defaultsFor vt.effects m.value = some d ∧
      dget o Helpers.effectSig.typeKey = some (.int m.value) ∧
      (∀ k v, k ∈ dkeys d → k ∉ special Helpers.attrNames → k ≠ Helpers.effectSig.typeKey →
          argOf args k = some v → dget o k = some v) ∧
      (∀ k, k ∈ dkeys d → k ∉ special Helpers.attrNames → k ≠ Helpers.effectSig.typeKey →
          argOf args k = none → dget o k = dget d k) ∧
      tr'.comps = tr.comps ++ [o] ∧
      (tr.order.Perm (List.range tr.comps.length) → tr'.order = tr.order ++ [tr.comps.length]) := by
  have hw : tableOK (Helpers.ctxE w) vt.effects = tableOK (Helpers.ctxE 16) vt.effects := rfl
  obtain ⟨m, d, a1, a2, a3, a4, a5, a6, a7, a8⟩ := helper_component_spec (c := Helpers.ctxE w)
    (helper_ok_of_mem helpers_ok_effects hh) (hw ▸ (C15.version_parts hv).2.1) hrun
  exact ⟨m, d, a1, a2, a3, a4 typeKey_plain.1, a5, a6, a7, a8⟩

theorem condition_helper_component {vt : VersionTable} (hv : vt ∈ Versions.all) {h : Helper}
    (hh : h ∈ Helpers.conditionHelpers) {args : Dict} {tr tr' : Trig} {o : Dict}
    (hrun : runHelper Helpers.ctxC Helpers.conditionMembers vt.conditions h args tr = .ok (o, tr')) :
    ∃ m d, memberNamed Helpers.conditionMembers h.const = some m ∧
      (h.deprecated = false → (stripUnderscore h.nameChars).map upperCode = m.nameChars) ∧
      defaultsFor vt.conditions m.value = some d ∧
      dget o Helpers.conditionSig.typeKey = some (.int m.value) ∧
      (∀ k v, k ∈ dkeys d → k ∉ special Helpers.attrNames → k ≠ Helpers.conditionSig.typeKey →
          argOf args k = some v → dget o k = some v) ∧
      (∀ k, k ∈ dkeys d → k ∉ special Helpers.attrNames → k ≠ Helpers.conditionSig.typeKey →
          argOf args k = none → dget o k = dget d k) ∧
      tr'.comps = tr.comps ++ [o] ∧
      (tr.order.Perm (List.range tr.comps.length) → tr'.order = tr.order ++ [tr.comps.length]) := by
  obtain ⟨m, d, a1, a2, a3, a4, a5, a6, a7, a8⟩ := helper_component_spec (c := Helpers.ctxC)
    (helper_ok_of_mem helpers_ok_conditions hh) (C15.version_parts hv).2.2 hrun
  exact ⟨m, d, a1, a2, a3, a4 typeKey_plain.2, a5, a6, a7, a8⟩

theorem condition_helper_spec {vt : VersionTable} (_ : vt ∈ Versions.all) {h : Helper} (hh : h ∈ Helpers.conditionHelpers)
    {args : Dict} {tr tr' : Trig} {o : Dict}
    (hrun : runHelper Helpers.ctxC Helpers.conditionMembers vt.conditions h args tr = .ok (o, tr')) :
    ∃ m d kw, memberNamed Helpers.conditionMembers h.const = some m ∧
      (h.deprecated = false → (stripUnderscore h.nameChars).map upperCode = m.nameChars) ∧
      defaultsFor vt.conditions m.value = some d ∧ dkeys kw = dkeys d ∧
      (∀ k, k ∈ dkeys d → k = Helpers.conditionSig.typeKey → dget kw k = some (.int m.value)) ∧
      (∀ k v, k ∈ dkeys d → k ≠ Helpers.conditionSig.typeKey → argOf args k = some v → dget kw k = some v) ∧
      (∀ k, k ∈ dkeys d → k ≠ Helpers.conditionSig.typeKey → argOf args k = none → dget kw k = dget d k) ∧
      construct Helpers.ctxC kw = .ok o ∧ tr'.comps = tr.comps ++ [o] ∧
      (tr.order.Perm (List.range tr.comps.length) → tr'.order = tr.order ++ [tr.comps.length]) :=
  helper_spec (c := Helpers.ctxC) (helper_ok_of_mem helpers_ok_conditions hh) hrun

/-! ## the hypotheses are met by concrete, non-trivial states (regenerated tables) -/

/-- a scrambled display order is a permutation of the indices -/
example : [2, 0, 1].Perm (List.range 3) := by decide

/-- in the newest version the first helper that has a parameter, called with that parameter on a trigger that already
holds two components in scrambled display order, succeeds, stores the argument under the parameter's name, is appended
at position 2 and extends the order with 2 -/
example : (match Versions.all.getLast?, Helpers.effectHelpers.find? (fun h => !h.params.isEmpty) with
    | some vt, some h =>
      (match h.params with
       | p :: _ =>
         (match runHelper (Helpers.ctxE 16) Helpers.effectMembers vt.effects h [(p, .int 77)]
                  { comps := [[], []], order := [1, 0] } with
          | .ok (o, tr) => (match dget o p with | some (.int 77) => true | _ => false) &&
                           Nat.beq tr.comps.length 3 && lbeq tr.order [1, 0, 2]
          | .error _ => false)
       | [] => false)
    | _, _ => false) = true := by decide +kernel

end Aoe.Props.C16
