import Aoe.Lemmas.Versions
import Aoe.Lemmas.Creatable
import Aoe.Generated.Ob
/-!
# C15 – only what a scenario version has can be used in it, and nothing else is refused

Generic theorems about the model (`Aoe/Model/Versions.lean`) for **every** table, plus the instantiation to the tables
regenerated from the repository (`Aoe/Generated/*`, obligations closed per version by `decide +kernel` in
`Aoe/Generated/ObT1xx.lean` and collected in `Generated.Ob.allOK`).
-/
namespace Aoe.Props.C15
open Aoe.Versions Aoe.Generated

/-- the keyword arguments are ones `_add_effect` accepts (otherwise Python raises `TypeError` at the call) -/
def ArgsOK (sig : Sig) (args : Dict) : Prop :=
  args.any (fun kv => !memN kv.1 sig.addParams || Nat.beq kv.1 sig.typeKey) = false

/-! ## effect / condition types -/

/-- **a type the version lacks is refused with `UnsupportedAttributeError`** (for every enum member, any arguments,
any trigger) -/
theorem add_unsupported (c : Ctx) (t : Table) (ty : Int) (args : Dict) (tr : Trig)
    (hargs : ArgsOK c.sig args) (hlack : ty ∉ t.ids) (hmem : ty ∈ c.sig.enumVals) :
    addComp c t ty args tr = .error .unsupported := by
  have h1 : t.find? ty = none := find?_none_iff.2 hlack
  have h2 : defaultsFor t ty = none := by
    unfold defaultsFor; cases t.find? 0 <;> simp [h1]
  unfold ArgsOK at hargs
  simp [addComp, addKw, hargs, h2, memI_iff.2 hmem]

/-- … and nothing is added to the trigger in that case (the error is the whole outcome) -/
theorem add_unsupported_no_effect (c : Ctx) (t : Table) (ty : Int) (args : Dict) (tr : Trig)
    (hargs : ArgsOK c.sig args) (hlack : ty ∉ t.ids) (hmem : ty ∈ c.sig.enumVals) :
    ¬ ∃ r, addComp c t ty args tr = .ok r := by
  rw [add_unsupported c t ty args tr hargs hlack hmem]; rintro ⟨r, h⟩; cases h

/-- facts `tableOK` gives about an entry of a well-formed table -/
theorem tableOK_entry {c : Ctx} {t : Table} (h : tableOK c t = true) {e : TypeEntry} (he : e ∈ t) :
    ∃ e0, t.find? 0 = some e0 ∧ t.find? e.id = some e ∧ (dkeys e0.defaults).Nodup ∧ (dkeys e.defaults).Nodup ∧
      (∀ k ∈ dkeys e0.defaults, k ∈ c.sig.addParams ∧ k ∈ c.sig.initParams) ∧
      (∀ k ∈ dkeys e.defaults, k ∈ c.sig.addParams ∧ k ∈ c.sig.initParams) ∧
      c.sig.typeKey ∈ dkeys e0.defaults ∧ (∀ a ∈ e.attrs, a ∈ c.sig.attrs) ∧ e.id ∈ c.sig.enumVals ∧
      creatable c e0.defaults e.defaults = true ∧ c.names.variableRef ∉ c.sig.addParams := by
  unfold tableOK at h
  cases h0 : t.find? 0 with
  | none => simp [h0] at h
  | some e0 =>
    simp only [h0, Bool.and_eq_true, Bool.not_eq_true'] at h
    obtain ⟨⟨hnd, hvr⟩, ⟨hk0, htk⟩, hall⟩ := h
    have hent := List.all_eq_true.1 hall e he
    simp only [entryOK, Bool.and_eq_true, Bool.or_eq_true] at hent
    obtain ⟨⟨⟨hkeys, hattrs⟩, hid⟩, hcr⟩ := hent
    simp only [keysOK, Bool.and_eq_true] at hk0
    obtain ⟨⟨hnd0, hsa0⟩, hsi0⟩ := hk0
    have K0 : ∀ k ∈ dkeys e0.defaults, k ∈ c.sig.addParams ∧ k ∈ c.sig.initParams :=
      fun k hk => ⟨subset_iff.1 hsa0 k hk, subset_iff.1 hsi0 k hk⟩
    have KE : (dkeys e.defaults).Nodup ∧ ∀ k ∈ dkeys e.defaults, k ∈ c.sig.addParams ∧ k ∈ c.sig.initParams := by
      rcases hkeys with hk | hk
      · rw [lbeq_iff.1 hk]; exact ⟨nodupNat_iff.1 hnd0, K0⟩
      · simp only [keysOK, Bool.and_eq_true] at hk
        exact ⟨nodupNat_iff.1 hk.1.1, fun k hkk => ⟨subset_iff.1 hk.1.2 k hkk, subset_iff.1 hk.2 k hkk⟩⟩
    refine ⟨e0, rfl, find?_of_mem (nodupInt_iff.1 hnd) he, nodupNat_iff.1 hnd0, KE.1, K0, KE.2, memN_iff.1 htk,
      subset_iff.1 hattrs, memI_iff.1 hid, hcr, ?_⟩
    intro hm; rw [memN_iff.2 hm] at hvr; cases hvr

/-- **a type the version has is never refused**: for every acceptable argument list `_add_effect` builds the keyword
dict (no `UnsupportedAttributeError`, no `KeyError`), and it has exactly the keys of the merged defaults -/
theorem add_supported {c : Ctx} {t : Table} (h : tableOK c t = true) {e : TypeEntry} (he : e ∈ t) (args : Dict)
    (hargs : ArgsOK c.sig args) :
    ∃ d kw, defaultsFor t e.id = some d ∧ addKw c.sig t e.id args = .ok kw ∧ dkeys kw = dkeys d := by
  obtain ⟨e0, h0, h1, -, -, K0, KE, -⟩ := tableOK_entry h he
  have hd : defaultsFor t e.id = some (dmerge e0.defaults e.defaults) := by simp [defaultsFor, h0, h1]
  have hk : ∀ k ∈ dkeys (dmerge e0.defaults e.defaults), k ∈ c.sig.addParams := by
    intro k hk
    rcases mem_dkeys_dmerge.1 hk with hk | hk
    · exact (K0 k hk).1
    · exact (KE k hk).1
  unfold ArgsOK at hargs
  refine ⟨dmerge e0.defaults e.defaults,
    (dmerge e0.defaults e.defaults).map (fun kv => (kv.1, kwValue c.sig e.id args kv.1 kv.2)), hd, ?_, ?_⟩
  · simp only [addKw, hargs, hd]; exact fillKw_eq hk
  · exact dkeys_map_val _ (kwValue c.sig e.id args)

/-- **what the version has can always be created**: for every type of a well-formed table the call without arguments
builds the keyword dict *and* the constructor accepts it (`Effect.__init__` / `Condition.__init__` do not raise) -/
theorem create_default_ok {c : Ctx} {t : Table} (h : tableOK c t = true) {e : TypeEntry} (he : e ∈ t) :
    ∃ kw o, addKw c.sig t e.id [] = .ok kw ∧ construct c kw = .ok o := by
  obtain ⟨e0, h0, h1, -, hndE, K0, KE, -, -, -, hcr, hvr⟩ := tableOK_entry h he
  have hd : defaultsFor t e.id = some (dmerge e0.defaults e.defaults) := by simp [defaultsFor, h0, h1]
  have hkeys : ∀ k ∈ dkeys (dmerge e0.defaults e.defaults), k ∈ c.sig.addParams ∧ k ∈ c.sig.initParams := by
    intro k hk
    rcases mem_dkeys_dmerge.1 hk with hk | hk
    · exact K0 k hk
    · exact KE k hk
  have hkw : addKw c.sig t e.id [] = .ok (defaultKw c.sig e.id (dmerge e0.defaults e.defaults)) := by
    simp only [addKw, List.any_nil, Bool.false_eq_true, if_false, hd]
    exact fillKw_eq (fun k hk => (hkeys k hk).1)
  have hD : ∀ n, (dget (dmerge e0.defaults e.defaults) n).getD .none = dflt e0.defaults e.defaults n :=
    fun n => dget_dmerge_dflt hndE n
  simp only [creatable, Bool.and_eq_true, Bool.or_eq_true, Bool.not_eq_true'] at hcr
  obtain ⟨⟨⟨⟨⟨hint, hx1⟩, hx2⟩, hy1⟩, hy2⟩, heff⟩ := hcr
  obtain ⟨o, ho⟩ := construct_defaults_ok c e.id (dmerge e0.defaults e.defaults)
    (fun k hk => (hkeys k hk).2)
    (fun hm => hvr (hkeys _ hm).1)
    (by simp only [hD]; exact hint) (by rw [hD]; exact hx1) (by rw [hD]; exact hx2) (by rw [hD]; exact hy1)
    (by rw [hD]; exact hy2)
    (by
      intro hE
      rcases heff with hne | hq
      · rw [hE] at hne; cases hne
      · rw [hD, hD]
        refine ⟨by simpa using hq.1, ?_⟩
        have := hq.2
        unfold qOK
        exact this)
  exact ⟨_, o, hkw, ho⟩

/-! ## version-gated attributes (links) -/

/-- an attribute the version lacks is pulled as `None` and its class property is disabled -/
theorem unsupported_pull_none (ps : Paths) (v : Nat) (l : Link) (st : Store) (h : supportsOpt l.support v = false) :
    pullLink ps v l st = .ok (none, .disabled) := by simp [pullLink, h]

/-- a disabled attribute raises `UnsupportedAttributeError` on access … -/
theorem disabled_read (cur : Val) : readAttr .disabled cur = .error .unsupported := rfl
/-- … and on assigning a value, while assigning `None` is accepted and stores nothing -/
theorem disabled_write (cur new : Val) :
    writeAttr .disabled cur new = if new = .none then .ok cur else .error .unsupported := rfl

/-- **no leak**: an attribute the version lacks is never written to the sections, whatever value the object holds -/
theorem unsupported_not_pushed (ps : Paths) (v : Nat) (l : Link) (x : Val) (st : Store)
    (h : supportsOpt l.support v = false) : pushLink ps v l x st = .ok st := by
  unfold pushLink; cases l.kind <;> simp [h]

theorem linkOK_gate {ps : Paths} {v : Nat} {l : Link} (h : linkOK ps v l = true) (hk : ∀ n, l.kind ≠ .history n) :
    supportsOpt l.support v = hasPath ps l.path := by
  unfold linkOK at h
  cases hkind : l.kind with
  | history n => exact absurd hkind (hk n)
  | plain =>
    simp only [hkind, Bool.and_eq_true] at h
    revert h; cases supportsOpt l.support v <;> cases hasPath ps l.path <;> simp [beqB]
  | object k =>
    simp only [hkind, Bool.and_eq_true] at h
    revert h; cases supportsOpt l.support v <;> cases hasPath ps l.path <;> simp [beqB]

/-- **a save never fails on a gated link**: under the link obligation `push_to_link` always succeeds -/
theorem push_never_fails {ps : Paths} {v : Nat} {l : Link} (h : linkOK ps v l = true) (x : Val) (st : Store) :
    ∃ st', pushLink ps v l x st = .ok st' := by
  unfold pushLink
  cases hkind : l.kind with
  | history n => exact ⟨st, rfl⟩
  | plain =>
    have g := linkOK_gate h (by intro n; rw [hkind]; exact fun e => by cases e)
    cases hs : supportsOpt l.support v
    · exact ⟨st, by simp⟩
    · rw [hs] at g; exact ⟨sset st l.path x, by simp [← g]⟩
  | object k =>
    have g := linkOK_gate h (by intro n; rw [hkind]; exact fun e => by cases e)
    cases hs : supportsOpt l.support v
    · exact ⟨st, by simp⟩
    · rw [hs] at g; exact ⟨sset st l.path x, by simp [← g]⟩

theorem sget_sset (st : Store) (p : List Nat) (x : Val) (q : List Nat) :
    sget (sset st p x) q = if p = q then some x else sget st q := by
  induction st with
  | nil => by_cases h : p = q <;> simp [sset, sget, h]
  | cons a r ih =>
    obtain ⟨p', v'⟩ := a
    by_cases h : p' = p
    · subst h; by_cases h2 : p' = q <;> simp [sset, sget, h2]
    · by_cases h2 : p' = q
      · subst h2
        have : ¬ p = p' := fun e => h e.symm
        simp [sset, sget, h, this]
      · simp [sset, sget, h, h2, ih]

/-- **what the version has is saved**: a supported, non-history link writes exactly its own field -/
theorem supported_pushed {ps : Paths} {v : Nat} {l : Link} (h : linkOK ps v l = true)
    (hk : ∀ n, l.kind ≠ .history n) (hs : supportsOpt l.support v = true) (x : Val) (st : Store) :
    pushLink ps v l x st = .ok (sset st l.path x) ∧ sget (sset st l.path x) l.path = some x ∧
      ∀ q, q ≠ l.path → sget (sset st l.path x) q = sget st q := by
  have g := linkOK_gate h hk
  rw [hs] at g
  refine ⟨?_, by simp [sget_sset], fun q hq => by simp [sget_sset, Ne.symm hq]⟩
  unfold pushLink
  cases hkind : l.kind with
  | history n => exact absurd hkind (hk n)
  | plain => simp [hs, ← g]
  | object k => simp [hs, ← g]

/-- **nothing that exists is refused**: a field present in the version's structure is pulled and stays available -/
theorem existing_never_refused {ps : Paths} {v : Nat} {l : Link} (h : linkOK ps v l = true)
    (hk : ∀ n, l.kind ≠ .history n) (hex : hasPath ps l.path = true) (st : Store) :
    pullLink ps v l st = .ok (sget st l.path, .available) := by
  have g := linkOK_gate h hk
  rw [hex] at g
  simp [pullLink, g, hex]

/-- … and a field the structure lacks is never touched (neither read nor written) -/
theorem missing_never_touched {ps : Paths} {v : Nat} {l : Link} (h : linkOK ps v l = true)
    (hk : ∀ n, l.kind ≠ .history n) (hex : hasPath ps l.path = false) (x : Val) (st : Store) :
    pullLink ps v l st = .ok (none, .disabled) ∧ pushLink ps v l x st = .ok st := by
  have g := linkOK_gate h hk
  rw [hex] at g
  exact ⟨unsupported_pull_none ps v l st g, unsupported_not_pushed ps v l x st g⟩

/-- the table-level link obligation gives the link-level one for every link of every reachable class -/
theorem linksOK_link {classes : List ClassLinks} {roots : List Nat} {ps : Paths} {v : Nat}
    (h : linksOK classes roots ps v = true) {c : ClassLinks} (hc : c ∈ classes)
    (hr : c.cls ∈ reachable classes roots v classes.length) {l : Link} (hl : l ∈ c.links) : linkOK ps v l = true := by
  unfold linksOK at h
  have := List.all_eq_true.1 h c hc
  simp only [memN_iff.2 hr, Bool.not_true, Bool.false_or] at this
  exact List.all_eq_true.1 this l hl

/-! ## the regenerated tables -/

/-- every shipped version satisfies the table obligation (per-version `decide +kernel`, see `Generated/ObV*.lean`) -/
theorem tables_ok : ∀ vt ∈ Versions.all,
    versionOK Links.classes Links.roots (Helpers.ctxE 16) Helpers.ctxC vt = true := Ob.allOK

theorem version_parts {vt : VersionTable} (h : vt ∈ Versions.all) :
    linksOK Links.classes Links.roots vt.paths vt.version = true ∧
    tableOK (Helpers.ctxE 16) vt.effects = true ∧ tableOK Helpers.ctxC vt.conditions = true := by
  have := tables_ok vt h
  simp only [versionOK, Bool.and_eq_true] at this
  exact ⟨this.1.1, this.1.2, this.2⟩

/-- **C15, attributes, for every shipped version and every link of every class that is constructed in it**: the link
is supported exactly when its field exists in that version's structure; so an attribute of a later version is pulled as
`None`/disabled and never pushed, the save cannot fail on it, and every field the version has is read and written. -/
theorem gated_attributes {vt : VersionTable} (hv : vt ∈ Versions.all) {c : ClassLinks} (hc : c ∈ Links.classes)
    (hr : c.cls ∈ reachable Links.classes Links.roots vt.version Links.classes.length) {l : Link} (hl : l ∈ c.links)
    (hk : ∀ n, l.kind ≠ .history n) (x : Val) (st : Store) :
    (supportsOpt l.support vt.version = hasPath vt.paths l.path) ∧
    (∃ st', pushLink vt.paths vt.version l x st = .ok st') ∧
    (hasPath vt.paths l.path = false →
      pullLink vt.paths vt.version l st = .ok (none, .disabled) ∧ pushLink vt.paths vt.version l x st = .ok st) ∧
    (hasPath vt.paths l.path = true →
      pullLink vt.paths vt.version l st = .ok (sget st l.path, .available) ∧
      pushLink vt.paths vt.version l x st = .ok (sset st l.path x)) := by
  have hl' := linksOK_link (version_parts hv).1 hc hr hl
  refine ⟨linkOK_gate hl' hk, push_never_fails hl' x st, fun hex => missing_never_touched hl' hk hex x st, fun hex => ?_⟩
  have g := linkOK_gate hl' hk
  exact ⟨existing_never_refused hl' hk hex st, (supported_pushed hl' hk (by rw [g, hex]) x st).1⟩

/-- the enum values the signature knows are exactly the enum members (cheap table fact) -/
theorem effect_enum : Helpers.effectSig.enumVals = Helpers.effectMembers.map (·.value) := by decide +kernel
theorem condition_enum : Helpers.conditionSig.enumVals = Helpers.conditionMembers.map (·.value) := by decide +kernel

/-- **C15, types, for every shipped version**: an `EffectId` member absent from the version's `effects.json` is
refused with `UnsupportedAttributeError`; every type of the file is accepted with any acceptable arguments -/
theorem effect_types {vt : VersionTable} (hv : vt ∈ Versions.all) (w : Nat) (args : Dict) (tr : Trig)
    (hargs : ArgsOK Helpers.effectSig args) :
    (∀ m ∈ Helpers.effectMembers, m.value ∉ vt.effects.ids →
        addComp (Helpers.ctxE w) vt.effects m.value args tr = .error .unsupported) ∧
    (∀ e ∈ vt.effects, ∃ kw, addKw Helpers.effectSig vt.effects e.id args = .ok kw) := by
  refine ⟨fun m hm hl => ?_, fun e he => ?_⟩
  · exact add_unsupported (Helpers.ctxE w) vt.effects m.value args tr hargs hl
      (by show m.value ∈ Helpers.effectSig.enumVals; rw [effect_enum]; exact List.mem_map.2 ⟨m, hm, rfl⟩)
  · obtain ⟨d, kw, -, h, -⟩ := add_supported (version_parts hv).2.1 he args hargs
    exact ⟨kw, h⟩

/-- **C15, "never refused", for every shipped version**: every effect type and every condition type of the version's
table can be created with its defaults (the constructor does not raise), for both armour/attack layouts -/
theorem every_type_creatable {vt : VersionTable} (hv : vt ∈ Versions.all) (w : Nat) :
    (∀ e ∈ vt.effects, ∃ kw o, addKw Helpers.effectSig vt.effects e.id [] = .ok kw ∧ construct (Helpers.ctxE w) kw = .ok o) ∧
    (∀ e ∈ vt.conditions, ∃ kw o, addKw Helpers.conditionSig vt.conditions e.id [] = .ok kw ∧ construct Helpers.ctxC kw = .ok o) := by
  -- the table obligation does not look at the armour/attack width
  have hw : tableOK (Helpers.ctxE w) vt.effects = tableOK (Helpers.ctxE 16) vt.effects := rfl
  exact ⟨fun _ he => create_default_ok (c := Helpers.ctxE w) (hw ▸ (version_parts hv).2.1) he,
         fun _ he => create_default_ok (c := Helpers.ctxC) (version_parts hv).2.2 he⟩

theorem condition_types {vt : VersionTable} (hv : vt ∈ Versions.all) (args : Dict) (tr : Trig)
    (hargs : ArgsOK Helpers.conditionSig args) :
    (∀ m ∈ Helpers.conditionMembers, m.value ∉ vt.conditions.ids →
        addComp Helpers.ctxC vt.conditions m.value args tr = .error .unsupported) ∧
    (∀ e ∈ vt.conditions, ∃ kw, addKw Helpers.conditionSig vt.conditions e.id args = .ok kw) := by
  refine ⟨fun m hm hl => ?_, fun e he => ?_⟩
  · exact add_unsupported Helpers.ctxC vt.conditions m.value args tr hargs hl
      (by show m.value ∈ Helpers.conditionSig.enumVals; rw [condition_enum]; exact List.mem_map.2 ⟨m, hm, rfl⟩)
  · obtain ⟨d, kw, -, h, -⟩ := add_supported (version_parts hv).2.2 he args hargs
    exact ⟨kw, h⟩

/-! ## the hypotheses are met by concrete, non-trivial states (regenerated tables) -/

/-- the oldest shipped version lacks some `EffectId` member and has another one -/
example : (match Versions.all with
    | vt :: _ => Helpers.effectMembers.any (fun m => !memI m.value vt.effects.ids) &&
                 Helpers.effectMembers.any (fun m => memI m.value vt.effects.ids)
    | [] => false) = true := by decide +kernel

/-- in the oldest version some link of a reachable class is unsupported and its field is missing; in the newest
version some gated link is supported and its field exists -/
example : (match Versions.all, Versions.all.getLast? with
    | old :: _, some new =>
      Links.classes.any (fun c => memN c.cls (reachable Links.classes Links.roots old.version Links.classes.length) &&
        c.links.any (fun l => l.support.isSome && !supportsOpt l.support old.version && !hasPath old.paths l.path)) &&
      Links.classes.any (fun c => memN c.cls (reachable Links.classes Links.roots new.version Links.classes.length) &&
        c.links.any (fun l => l.support.isSome && supportsOpt l.support new.version && hasPath new.paths l.path))
    | _, _ => false) = true := by decide +kernel

/-- reachability is version dependent: some class is constructed in the newest version but not in the oldest -/
example : (match Versions.all, Versions.all.getLast? with
    | old :: _, some new =>
      Links.classes.any (fun c =>
        memN c.cls (reachable Links.classes Links.roots new.version Links.classes.length) &&
        !memN c.cls (reachable Links.classes Links.roots old.version Links.classes.length))
    | _, _ => false) = true := by decide +kernel

/-- `ArgsOK` is satisfiable by a real argument -/
example : ArgsOK Helpers.effectSig [(Helpers.attrNames.quantity, .int 5)] := by unfold ArgsOK; decide +kernel

end Aoe.Props.C15
