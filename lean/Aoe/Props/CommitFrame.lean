import Aoe.Props.Links
/-!
# The footprint of a commit (all classes, nested object lists, refresh actions)

`foot classes fuel cls hist obj` lists every place the commit of the object `obj` of class `cls` at index history `hist`
writes: the retriever of every plain link, the struct list of every object-list link, the destinations of the refresh
actions of both, and - recursively - the footprints of the child objects at `hist ++ [i]`.

`commitObj_frame`: whatever diverges from every path of the footprint holds after the commit exactly what it held before.
This is the C05 frame statement ("an edit lands where it belongs and nowhere else") for the whole engine - every class of
every version table, any nesting, any values - not only for plain classes (`Aoe.Props.Links.commit_frame`).
-/
namespace Aoe.Props.CommitFrame
open Aoe Aoe.Codec Aoe.Lens Aoe.Commit Aoe.Props.Links
open Aoe.Props.C05 (Diverge frame)

/-- `q` lies outside every path of `W` -/
def Outside (W : List (List Step)) (q : List Step) : Prop := ∀ w ∈ W, Diverge w q

/-- a predicate on section trees that no write through the path `w` can destroy -/
def Pres (Q : Val → Prop) (w : List Step) : Prop := ∀ t x t', setAt w t x = some t' → Q t → Q t'

/-- … through any path of `W` -/
def AllPres (Q : Val → Prop) (W : List (List Step)) : Prop := ∀ w ∈ W, Pres Q w

/-- places the push of one (link, value) pair writes; `F` = footprint of a child commit -/
def linkFoot (F : Nat → List Nat → Val → List (List Step)) (hist : List Nat) (lv : (Nat × LinkKind) × Val) :
    List (List Step) :=
  match lv.1.2 with
  | .plain path acts _ =>
    match resolve hist path with
    | some p => p :: acts.map (fun a => a.dest.path (dropLastStep p))
    | none => []
  | .objs path ccls _ _ _ acts _ =>
    match resolve hist path, lv.2 with
    | some p, .list os =>
      p :: (acts.map (fun a => a.dest.path (dropLastStep p)) ++
            (os.zipIdx).flatMap (fun oi => F ccls (hist ++ [oi.2]) oi.1))
    | _, _ => []
  | _ => []

/-- the footprint of the commit of one object -/
def foot (classes : List ClassSpec) : Nat → Nat → List Nat → Val → List (List Step)
  | 0, _, _, _ => []
  | fuel + 1, cls, hist, obj =>
    match classes[cls]?, obj with
    | some c, .strct vals => (c.links.zip vals).flatMap (linkFoot (foot classes fuel) hist)
    | _, _ => []

/-- one write through `setAt … |>.bind withRoot` keeps a predicate that writes through `p` keep -/
theorem write_inv (Q : Val → Prop) (s s' : Sections) (p : List Step) (v : Val)
    (h : (setAt p s.root v).bind s.withRoot = some s') (hp : Pres Q p) (hQ : Q s.root) : Q s'.root := by
  cases hs : setAt p s.root v with
  | none => simp [hs, Option.bind] at h
  | some r =>
    simp only [hs, Option.bind] at h
    rw [(withRoot_some s s' r h).1]
    exact hp s.root v r hs hQ

/-- a fold of state transformers each of which keeps `Q` keeps `Q` -/
theorem foldlM_inv {α : Type} (Q : Val → Prop) (f : Sections → α → Except Err Sections) (l : List α)
    (hf : ∀ a ∈ l, ∀ s s', f s a = .ok s' → Q s.root → Q s'.root)
    (s s' : Sections) (h : l.foldlM f s = .ok s') (hQ : Q s.root) : Q s'.root := by
  induction l generalizing s with
  | nil => simp only [List.foldlM, pure, Except.pure, Except.ok.injEq] at h; subst h; exact hQ
  | cons a l ih =>
    simp only [List.foldlM, bind, Except.bind] at h
    cases h1 : f s a with
    | error e => rw [h1] at h; cases h
    | ok s1 =>
      rw [h1] at h
      exact ih (fun b hb => hf b (by simp [hb])) s1 h (hf a (by simp) s s1 h1 hQ)

/-- the refresh actions write only their destinations -/
theorem applyActs_inv (Q : Val → Prop) (acts : List RefreshAct) (recPath : List Step) (names : List Nat)
    (hq : ∀ a ∈ acts, Pres Q (a.dest.path recPath)) (s s' : Sections)
    (h : applyActs acts recPath names s = .ok s') (hQ : Q s.root) : Q s'.root := by
  unfold applyActs at h
  refine foldlM_inv Q _ acts ?_ s s' h hQ
  intro a ha s0 s1 h1 hQ0
  simp only [bind, Except.bind] at h1
  cases hg : getAt recPath s0.root with
  | none => simp [hg] at h1
  | some selfRec =>
    simp only [hg, pure, Except.pure] at h1
    cases he : a.expr.eval (s0.env names selfRec) with
    | error e => simp [he] at h1
    | ok v =>
      simp only [he] at h1
      cases hw : (setAt (a.dest.path recPath) s0.root v).bind s0.withRoot with
      | none => simp [hw] at h1
      | some s2 =>
        simp only [hw, Except.ok.injEq] at h1
        subst h1
        exact write_inv Q s0 s2 _ v hw (hq a ha) hQ0

/-- the push of one link writes only inside its footprint (given that child commits write only inside theirs) -/
theorem pushLink_inv (Q : Val → Prop) (rc : Nat → List Nat → Val → Sections → Except Err Sections)
    (F : Nat → List Nat → Val → List (List Step))
    (hrc : ∀ ccls h o s s', rc ccls h o s = .ok s' → AllPres Q (F ccls h o) → Q s.root → Q s'.root)
    (hist : List Nat) (s s' : Sections) (lv : (Nat × LinkKind) × Val)
    (h : pushLink rc hist s lv = .ok s') (hq : AllPres Q (linkFoot F hist lv)) (hQ : Q s.root) : Q s'.root := by
  obtain ⟨⟨a, k⟩, v⟩ := lv
  cases k with
  | hist n => simp only [pushLink, pure, Except.pure, Except.ok.injEq] at h; subst h; exact hQ
  | skip => simp only [pushLink, pure, Except.pure, Except.ok.injEq] at h; subst h; exact hQ
  | plain path acts names =>
    simp only [pushLink, bind, Except.bind] at h
    cases hr : resolve hist path with
    | none => simp [hr] at h
    | some p =>
      simp only [hr, pure, Except.pure] at h
      simp only [AllPres, linkFoot, hr] at hq
      cases hw : (setAt p s.root v).bind s.withRoot with
      | none => simp [hw] at h
      | some s1 =>
        simp only [hw] at h
        exact applyActs_inv Q acts (dropLastStep p) names
              (fun a ha => hq _ (by simp; exact Or.inr ⟨a, ha, rfl⟩)) s1 s' h
              (write_inv Q s s1 p v hw (hq p (by simp)) hQ)
  | objs path ccls defaults childNames guards acts names =>
    simp only [pushLink, bind, Except.bind] at h
    cases hr : resolve hist path with
    | none => simp [hr] at h
    | some p =>
      simp only [hr, pure, Except.pure] at h
      cases v with
      | list os =>
        simp only at h
        simp only [AllPres, linkFoot, hr] at hq
        cases hg : getAt p s.root with
        | none => simp [hg] at h
        | some ov =>
          cases ov with
          | list old =>
            simp only [hg] at h
            -- everything after the default struct has been obtained (it is only evaluated, nothing is written)
            have key : ∀ (dflt : Val) (s1 s2 : Sections),
                (setAt p s.root (.list (resizeList old os.length dflt))).bind s.withRoot = some s1 →
                (os.zipIdx).foldlM (fun (s : Sections) (oi : Val × Nat) => rc ccls (hist ++ [oi.2]) oi.1 s) s1 = .ok s2 →
                applyActs acts (dropLastStep p) names s2 = .ok s' → Q s'.root := by
              intro dflt s1 s2 hw hf h
              refine applyActs_inv Q acts (dropLastStep p) names
                    (fun a ha => hq _ (by simp; exact Or.inr (Or.inl ⟨a, ha, rfl⟩))) s2 s' h ?_
              refine foldlM_inv Q _ (os.zipIdx) ?_ s1 s2 hf (write_inv Q s s1 p _ hw (hq p (by simp)) hQ)
              intro oi hoi t t' ht hQt
              refine hrc ccls (hist ++ [oi.2]) oi.1 t t' ht ?_ hQt
              intro w hw'
              exact hq w (by simp; exact Or.inr (Or.inr ⟨oi.1, oi.2, hoi, hw'⟩))
            by_cases hle : os.length ≤ old.length
            · rw [if_pos hle] at h
              try simp only [pure, Except.pure] at h
              cases hw : (setAt p s.root (.list (resizeList old os.length (Val.strct [])))).bind s.withRoot with
              | none => rw [hw] at h; cases h
              | some s1 =>
                rw [hw] at h
                simp only at h
                cases hf : (os.zipIdx).foldlM (fun (s : Sections) (oi : Val × Nat) => rc ccls (hist ++ [oi.2]) oi.1 s) s1 with
                | error e => rw [hf] at h; cases h
                | ok s2 => rw [hf] at h; exact key (Val.strct []) s1 s2 hw hf h
            · rw [if_neg hle] at h
              cases hdf : defaultStruct defaults childNames guards s with
              | error e => rw [hdf] at h; cases h
              | ok dflt =>
                rw [hdf] at h
                simp only at h
                cases hw : (setAt p s.root (.list (resizeList old os.length dflt))).bind s.withRoot with
                | none => rw [hw] at h; cases h
                | some s1 =>
                  rw [hw] at h
                  simp only at h
                  cases hf : (os.zipIdx).foldlM (fun (s : Sections) (oi : Val × Nat) => rc ccls (hist ++ [oi.2]) oi.1 s) s1 with
                  | error e => rw [hf] at h; cases h
                  | ok s2 => rw [hf] at h; exact key dflt s1 s2 hw hf h
          | _ => rw [hg] at h; cases h
      | _ => cases h

/-- **a commit keeps every predicate that writes through its footprint keep** (all classes, any nesting) -/
theorem commitObj_inv (Q : Val → Prop) (classes : List ClassSpec) (fuel : Nat) :
    ∀ (cls : Nat) (hist : List Nat) (obj : Val) (s s' : Sections),
      commitObj classes fuel cls hist obj s = .ok s' → AllPres Q (foot classes fuel cls hist obj) →
      Q s.root → Q s'.root := by
  induction fuel with
  | zero => intro cls hist obj s s' h; simp [commitObj] at h
  | succ fuel ih =>
    intro cls hist obj s s' h hq hQ
    simp only [commitObj] at h
    cases hc : classes[cls]? with
    | none => simp [hc] at h
    | some c =>
      cases obj with
      | strct vals =>
        simp only [hc] at h
        simp only [foot, hc, AllPres] at hq
        refine foldlM_inv Q _ _ ?_ s s' h hQ
        intro lv hlv t t' ht hQt
        refine pushLink_inv Q (commitObj classes fuel) (foot classes fuel) ?_ hist t t' lv ht ?_ hQt
        · intro ccls hh o u u' hu hou hQu
          exact ih ccls hh o u u' hu hou hQu
        · intro w hw
          exact hq w (List.mem_flatMap.mpr ⟨lv, by simpa using hlv, hw⟩)
      | _ => simp [hc] at h

/-- a place outside `w` is kept by writes through `w` -/
theorem pres_of_diverge (q w : List Step) (c : Option Val) (hd : Diverge w q) : Pres (fun t => getAt q t = c) w := by
  intro t x t' hs hq
  rw [frame w q t x t' hd hs]; exact hq

/-- **frame of a commit, all classes**: a place that diverges from every path of the object's footprint holds after the
commit what it held before -/
theorem commitObj_frame (classes : List ClassSpec) (q : List Step) (fuel : Nat)
    (cls : Nat) (hist : List Nat) (obj : Val) (s s' : Sections)
    (h : commitObj classes fuel cls hist obj s = .ok s') (hq : Outside (foot classes fuel cls hist obj) q) :
    getAt q s'.root = getAt q s.root :=
  commitObj_inv (fun t => getAt q t = getAt q s.root) classes fuel cls hist obj s s' h
    (fun w hw => pres_of_diverge q w _ (hq w hw)) rfl

/-- … and of a whole reconstruct (all managers in their fixed order) -/
theorem commitAll_frame (classes : List ClassSpec) (q : List Step) (managers : List Nat) (objs : List Val) (s s' : Sections)
    (h : commitAll classes managers objs s = .ok s')
    (hq : ∀ mo ∈ managers.zip objs, Outside (foot classes 4 mo.1 [] mo.2) q) :
    getAt q s'.root = getAt q s.root := by
  unfold commitAll at h
  refine foldlM_inv (fun t => getAt q t = getAt q s.root) _ _ ?_ s s' h rfl
  intro mo hmo t t' ht hQt
  exact commitObj_inv (fun t => getAt q t = getAt q s.root) classes 4 mo.1 [] mo.2 t t' ht
    (fun w hw => pres_of_diverge q w _ (hq mo hmo w hw)) hQt

/-! non-vacuity: the footprint of the demo object of `Aoe.Props.Links` and a place outside it -/
example : foot demoClasses 2 0 [] (.strct [.int 5, .int 0, .none, .str [0x62]]) =
    [[.fld 0, .fld 1], [.fld 1, .fld 0]] := by decide
example : Outside (foot demoClasses 2 0 [] (.strct [.int 5, .int 0, .none, .str [0x62]])) [.fld 0, .fld 0] := by
  intro w hw
  have : w = [.fld 0, .fld 1] ∨ w = [.fld 1, .fld 0] := by
    have h : foot demoClasses 2 0 [] (.strct [.int 5, .int 0, .none, .str [0x62]]) = [[.fld 0, .fld 1], [.fld 1, .fld 0]] := by decide
    rw [h] at hw; simpa using hw
  rcases this with rfl | rfl
  · exact Or.inr ⟨rfl, Or.inl (by decide)⟩
  · exact Or.inl (by decide)

end Aoe.Props.CommitFrame

namespace Aoe.Props.CommitFrame
open Aoe Aoe.Codec Aoe.Lens Aoe.Commit Aoe.Props.Links
open Aoe.Props.C05 (Diverge frame get_set)

/-! ## the number of stored elements of a struct list (towards C04: stored counts = number of stored elements) -/

/-- the place `p` holds a list of `n` elements -/
def ListLen (p : List Step) (n : Nat) (t : Val) : Prop := ∃ l, getAt p t = some (.list l) ∧ l.length = n

/-- a write strictly below an element of the list at `p` keeps the number of elements of that list -/
theorem pres_len_below (p : List Step) (n i : Nat) (r : List Step) : Pres (ListLen p n) (p ++ Step.idx i :: r) := by
  induction p with
  | nil =>
    intro t x t' hs ⟨l, hg, hl⟩
    simp only [getAt, Option.some.injEq] at hg
    subst hg
    simp only [List.nil_append, setAt] at hs
    cases hi : l[i]? with
    | none => simp [hi] at hs
    | some v =>
      simp only [hi] at hs
      cases hr : setAt r v x with
      | none => simp [hr] at hs
      | some v' =>
        simp only [hr, Option.some.injEq] at hs
        subst hs
        exact ⟨l.set i v', rfl, by simp [hl]⟩
  | cons a p ih =>
    intro t x t' hs ⟨l, hg, hl⟩
    cases a with
    | fld j =>
      cases t with
      | strct vs =>
        simp only [List.cons_append, setAt] at hs
        simp only [getAt] at hg
        cases hj : vs[j]? with
        | none => simp [hj] at hs
        | some v =>
          simp only [hj] at hs hg
          cases hr : setAt (p ++ Step.idx i :: r) v x with
          | none => simp [hr] at hs
          | some v' =>
            simp only [hr, Option.some.injEq] at hs
            subst hs
            obtain ⟨l', hg', hl'⟩ := ih v x v' hr ⟨l, hg, hl⟩
            refine ⟨l', ?_, hl'⟩
            have hlt : j < vs.length := by
              rcases List.getElem?_eq_some_iff.mp hj with ⟨h, _⟩; exact h
            simp only [getAt, List.getElem?_set_self hlt]
            exact hg'
      | _ => simp [setAt] at hs
    | idx j =>
      cases t with
      | list vs =>
        simp only [List.cons_append, setAt] at hs
        simp only [getAt] at hg
        cases hj : vs[j]? with
        | none => simp [hj] at hs
        | some v =>
          simp only [hj] at hs hg
          cases hr : setAt (p ++ Step.idx i :: r) v x with
          | none => simp [hr] at hs
          | some v' =>
            simp only [hr, Option.some.injEq] at hs
            subst hs
            obtain ⟨l', hg', hl'⟩ := ih v x v' hr ⟨l, hg, hl⟩
            refine ⟨l', ?_, hl'⟩
            have hlt : j < vs.length := by
              rcases List.getElem?_eq_some_iff.mp hj with ⟨h, _⟩; exact h
            simp only [getAt, List.getElem?_set_self hlt]
            exact hg'
      | _ => simp [setAt] at hs

/-- a write that diverges from `p` keeps the list at `p` altogether -/
theorem pres_len_diverge (p w : List Step) (n : Nat) (hd : Diverge w p) : Pres (ListLen p n) w := by
  intro t x t' hs ⟨l, hg, hl⟩
  exact ⟨l, by rw [frame w p t x t' hd hs]; exact hg, hl⟩

theorem resizeList_length (old : List Val) (n : Nat) (d : Val) : (resizeList old n d).length = n := by
  unfold resizeList
  split
  · simp; omega
  · simp; omega

/-- the steps of the push of an object-list link, spelled out -/
theorem pushLink_objs_steps (rc : Nat → List Nat → Val → Sections → Except Err Sections) (hist : List Nat)
    (s s' : Sections) (a : Nat) (path : List PStep) (ccls : Nat) (defaults : List Val) (childNames : List Nat)
    (guards : List (Nat × Expr)) (acts : List RefreshAct) (names : List Nat) (os : List Val)
    (h : pushLink rc hist s ((a, .objs path ccls defaults childNames guards acts names), .list os) = .ok s') :
    ∃ p old dflt s1 s2, resolve hist path = some p ∧ getAt p s.root = some (.list old) ∧
      (setAt p s.root (.list (resizeList old os.length dflt))).bind s.withRoot = some s1 ∧
      (os.zipIdx).foldlM (fun (s : Sections) (oi : Val × Nat) => rc ccls (hist ++ [oi.2]) oi.1 s) s1 = .ok s2 ∧
      applyActs acts (dropLastStep p) names s2 = .ok s' := by
  simp only [pushLink, bind, Except.bind] at h
  cases hr : resolve hist path with
  | none => simp [hr] at h
  | some p =>
    simp only [hr, pure, Except.pure] at h
    cases hg : getAt p s.root with
    | none => simp [hg] at h
    | some ov =>
      cases ov with
      | list old =>
        simp only [hg] at h
        by_cases hle : os.length ≤ old.length
        · rw [if_pos hle] at h
          try simp only [pure, Except.pure] at h
          cases hw : (setAt p s.root (.list (resizeList old os.length (Val.strct [])))).bind s.withRoot with
          | none => rw [hw] at h; cases h
          | some s1 =>
            rw [hw] at h
            simp only at h
            cases hf : (os.zipIdx).foldlM (fun (s : Sections) (oi : Val × Nat) => rc ccls (hist ++ [oi.2]) oi.1 s) s1 with
            | error e => rw [hf] at h; cases h
            | ok s2 => rw [hf] at h; exact ⟨p, old, Val.strct [], s1, s2, rfl, hg, hw, hf, h⟩
        · rw [if_neg hle] at h
          cases hdf : defaultStruct defaults childNames guards s with
          | error e => rw [hdf] at h; cases h
          | ok dflt =>
            rw [hdf] at h
            simp only at h
            cases hw : (setAt p s.root (.list (resizeList old os.length dflt))).bind s.withRoot with
            | none => rw [hw] at h; cases h
            | some s1 =>
              rw [hw] at h
              simp only at h
              cases hf : (os.zipIdx).foldlM (fun (s : Sections) (oi : Val × Nat) => rc ccls (hist ++ [oi.2]) oi.1 s) s1 with
              | error e => rw [hf] at h; cases h
              | ok s2 => rw [hf] at h; exact ⟨p, old, dflt, s1, s2, rfl, hg, hw, hf, h⟩
      | _ => rw [hg] at h; cases h

/-- **after the push of an object list the struct list holds exactly as many records as there are objects** - provided
the child commits and the refresh actions only write below the records / elsewhere (`AllPres (ListLen …)`) -/
theorem pushLink_objs_len (rc : Nat → List Nat → Val → Sections → Except Err Sections)
    (F : Nat → List Nat → Val → List (List Step)) (hist : List Nat)
    (s s' : Sections) (a : Nat) (path : List PStep) (ccls : Nat) (defaults : List Val) (childNames : List Nat)
    (guards : List (Nat × Expr)) (acts : List RefreshAct) (names : List Nat) (os : List Val) (p : List Step)
    (hp : resolve hist path = some p)
    (hrc : ∀ h o t t', rc ccls h o t = .ok t' → AllPres (ListLen p os.length) (F ccls h o) →
      ListLen p os.length t.root → ListLen p os.length t'.root)
    (hch : ∀ oi ∈ os.zipIdx, AllPres (ListLen p os.length) (F ccls (hist ++ [oi.2]) oi.1))
    (hacts : ∀ a ∈ acts, Pres (ListLen p os.length) (a.dest.path (dropLastStep p)))
    (h : pushLink rc hist s ((a, .objs path ccls defaults childNames guards acts names), .list os) = .ok s') :
    ListLen p os.length s'.root := by
  obtain ⟨p', old, dflt, s1, s2, hr, hg, hw, hf, ha⟩ := pushLink_objs_steps rc hist s s' a path ccls defaults childNames guards acts names os h
  rw [hp] at hr; cases hr
  have h1 : ListLen p os.length s1.root := by
    cases hs : setAt p s.root (.list (resizeList old os.length dflt)) with
    | none => simp [hs, Option.bind] at hw
    | some r =>
      simp only [hs, Option.bind] at hw
      rw [(withRoot_some s s1 r hw).1]
      exact ⟨_, get_set p s.root _ r hs, resizeList_length old os.length dflt⟩
  have h2 : ListLen p os.length s2.root := by
    refine foldlM_inv (ListLen p os.length) _ (os.zipIdx) ?_ s1 s2 hf h1
    intro oi hoi t t' ht hQt
    exact hrc (hist ++ [oi.2]) oi.1 t t' ht (hch oi hoi) hQt
  exact applyActs_inv (ListLen p os.length) acts (dropLastStep p) names hacts s2 s' ha h2

end Aoe.Props.CommitFrame

namespace Aoe.Props.CommitFrame
open Aoe Aoe.Codec Aoe.Lens Aoe.Commit Aoe.Props.Links
open Aoe.Props.C05 (Diverge frame get_set)

/-! ## child objects write strictly below their own record -/

/-- `w` lies strictly below element `i` of the list at `p` -/
def Below (p : List Step) (i : Nat) (w : List Step) : Prop := ∃ r, w = p ++ Step.idx i :: r

theorem pres_len_of_below (p w : List Step) (n i : Nat) (h : Below p i w) : Pres (ListLen p n) w := by
  obtain ⟨r, rfl⟩ := h
  exact pres_len_below p n i r

theorem resolve_append (hist : List Nat) (a b : List PStep) :
    resolve hist (a ++ b) = (resolve hist a).bind (fun pa => (resolve hist b).map (pa ++ ·)) := by
  induction a with
  | nil => simp [resolve]
  | cons x a ih =>
    cases x with
    | fld i =>
      simp only [List.cons_append, resolve, ih]
      cases resolve hist a <;> cases resolve hist b <;> simp
    | hidx k =>
      simp only [List.cons_append, resolve, ih]
      cases hist[k]? with
      | none => simp
      | some n => cases resolve hist a <;> cases resolve hist b <;> simp

theorem resolve_ext (hist : List Nat) (i : Nat) (path : List PStep) (p : List Step)
    (h : resolve hist path = some p) : resolve (hist ++ [i]) path = some p := by
  induction path generalizing p with
  | nil => simpa [resolve] using h
  | cons x path ih =>
    cases x with
    | fld j =>
      simp only [resolve] at h ⊢
      cases hr : resolve hist path with
      | none => simp [hr] at h
      | some q => simp only [hr, Option.map] at h; rw [ih q hr]; simpa using h
    | hidx k =>
      simp only [resolve] at h ⊢
      cases hk : hist[k]? with
      | none => simp [hk] at h
      | some n =>
        simp only [hk] at h
        have hlt : k < hist.length := by
          rcases List.getElem?_eq_some_iff.mp hk with ⟨h', _⟩; exact h'
        have : (hist ++ [i])[k]? = some n := by
          rw [List.getElem?_append_left hlt]; exact hk
        simp only [this]
        cases hr : resolve hist path with
        | none => simp [hr] at h
        | some q => simp only [hr, Option.map] at h; rw [ih q hr]; simpa using h

theorem resolve_length (hist : List Nat) (path : List PStep) (p : List Step) (h : resolve hist path = some p) :
    p.length = path.length := by
  induction path generalizing p with
  | nil => simp only [resolve, Option.some.injEq] at h; subst h; rfl
  | cons x path ih =>
    cases x with
    | fld j =>
      simp only [resolve] at h
      cases hr : resolve hist path with
      | none => simp [hr] at h
      | some q => simp only [hr, Option.map, Option.some.injEq] at h; subst h; simp [ih q hr]
    | hidx k =>
      simp only [resolve] at h
      cases hk : hist[k]? with
      | none => simp [hk] at h
      | some n =>
        simp only [hk] at h
        cases hr : resolve hist path with
        | none => simp [hr] at h
        | some q => simp only [hr, Option.map, Option.some.injEq] at h; subst h; simp [ih q hr]

/-- a child's link path: the parent's list path, the child's own index, then at least one more step -/
def pathBelow (pp : List PStep) (k : Nat) (path : List PStep) : Bool :=
  decide (path.take (pp.length + 1) = pp ++ [PStep.hidx k]) && decide (pp.length + 1 < path.length)

def actsSelf (acts : List RefreshAct) : Bool :=
  acts.all (fun a => match a.dest with | .self _ => true | .sec _ _ => false)

/-- every link of class `cls` (and, recursively, of its child classes) addresses a place strictly below the record
`hidx k` of the list at `pp`, and refreshes only fields of the record that holds the pushed retriever -/
def wellNested (classes : List ClassSpec) : Nat → Nat → List PStep → Nat → Bool
  | 0, _, _, _ => true
  | fuel + 1, cls, pp, k =>
    match classes[cls]? with
    | none => true
    | some c => c.links.all (fun l =>
        match l.2 with
        | .plain path acts _ => pathBelow pp k path && actsSelf acts
        | .objs path ccls _ _ _ acts _ => pathBelow pp k path && actsSelf acts && wellNested classes fuel ccls path (k + 1)
        | _ => true)

/-- resolving a child's link path at the child's history -/
theorem resolve_child (hist : List Nat) (i : Nat) (pp path : List PStep) (p : List Step)
    (hp : resolve hist pp = some p) (hb : pathBelow pp hist.length path = true) (q : List Step)
    (hq : resolve (hist ++ [i]) path = some q) : ∃ r, r ≠ [] ∧ q = p ++ Step.idx i :: r := by
  simp only [pathBelow, Bool.and_eq_true, decide_eq_true_eq] at hb
  obtain ⟨htake, hlen⟩ := hb
  have hsplit : path = (pp ++ [PStep.hidx hist.length]) ++ path.drop (pp.length + 1) := by
    rw [← htake]; exact (List.take_append_drop _ _).symm
  rw [hsplit, resolve_append, resolve_append, resolve_ext hist i pp p hp] at hq
  have hk : (hist ++ [i])[hist.length]? = some i := by simp
  simp only [resolve, hk, Option.map, Option.bind] at hq
  cases hr : resolve (hist ++ [i]) (List.drop (pp.length + 1) path) with
  | none => simp [hr] at hq
  | some r =>
    simp only [hr, Option.some.injEq] at hq
    refine ⟨r, ?_, ?_⟩
    · intro hnil
      have := resolve_length _ _ _ hr
      rw [hnil] at this
      simp at this
      omega
    · rw [← hq]; simp

end Aoe.Props.CommitFrame

namespace Aoe.Props.CommitFrame
open Aoe Aoe.Codec Aoe.Lens Aoe.Commit Aoe.Props.Links
open Aoe.Props.C05 (Diverge frame get_set)

theorem below_trans (p : List Step) (i : Nat) (r w : List Step) (j : Nat)
    (h : Below (p ++ Step.idx i :: r) j w) : Below p i w := by
  obtain ⟨r2, rfl⟩ := h
  exact ⟨r ++ Step.idx j :: r2, by simp⟩

theorem dropLast_below (p : List Step) (i : Nat) (r : List Step) (hr : r ≠ []) (x : Step) :
    Below p i (dropLastStep (p ++ Step.idx i :: r) ++ [x]) := by
  refine ⟨r.dropLast ++ [x], ?_⟩
  unfold dropLastStep
  have : (p ++ Step.idx i :: r).dropLast = p ++ Step.idx i :: r.dropLast := by
    rw [List.dropLast_append_of_ne_nil (by simp)]
    congr 1
    cases r with
    | nil => exact absurd rfl hr
    | cons a r => simp [List.dropLast]
  rw [this]; simp

/-- **the footprint of a child object lies strictly below the child's own record** (for well-nested class tables) -/
theorem foot_below (classes : List ClassSpec) (fuel : Nat) :
    ∀ (cls : Nat) (pp : List PStep) (hist : List Nat) (i : Nat) (obj : Val) (p : List Step),
      resolve hist pp = some p → wellNested classes fuel cls pp hist.length = true →
      ∀ w ∈ foot classes fuel cls (hist ++ [i]) obj, Below p i w := by
  induction fuel with
  | zero => intro cls pp hist i obj p _ _ w hw; simp [foot] at hw
  | succ fuel ih =>
    intro cls pp hist i obj p hp hwn w hw
    simp only [foot] at hw
    cases hc : classes[cls]? with
    | none => simp [hc] at hw
    | some c =>
      cases obj with
      | strct vals =>
        simp only [hc, List.mem_flatMap] at hw
        obtain ⟨lv, hlv, hwl⟩ := hw
        simp only [wellNested, hc, List.all_eq_true] at hwn
        have hl := hwn lv.1 (List.of_mem_zip hlv).1
        obtain ⟨⟨a, k⟩, v⟩ := lv
        cases k with
        | hist n => simp [linkFoot] at hwl
        | skip => simp [linkFoot] at hwl
        | plain path acts names =>
          simp only [Bool.and_eq_true] at hl
          obtain ⟨hpb, hself⟩ := hl
          simp only [linkFoot] at hwl
          cases hr : resolve (hist ++ [i]) path with
          | none => simp [hr] at hwl
          | some q =>
            obtain ⟨r, hrne, rfl⟩ := resolve_child hist i pp path p hp hpb q hr
            simp only [hr, List.mem_cons, List.mem_map] at hwl
            rcases hwl with rfl | ⟨act, hact, rfl⟩
            · exact ⟨r, rfl⟩
            · have := List.all_eq_true.mp hself act hact
              cases hd : act.dest with
              | self j => simp only [Dest.path]; exact dropLast_below p i r hrne _
              | sec sc j => simp [hd] at this
        | objs path ccls defaults childNames guards acts names =>
          simp only [Bool.and_eq_true] at hl
          obtain ⟨⟨hpb, hself⟩, hchild⟩ := hl
          simp only [linkFoot] at hwl
          cases hr : resolve (hist ++ [i]) path with
          | none => simp [hr] at hwl
          | some q =>
            obtain ⟨r, hrne, rfl⟩ := resolve_child hist i pp path p hp hpb q hr
            cases v with
            | list os =>
              simp only [hr, List.mem_cons, List.mem_append, List.mem_map, List.mem_flatMap] at hwl
              rcases hwl with rfl | ⟨act, hact, rfl⟩ | ⟨oi, hoi, hwc⟩
              · exact ⟨r, rfl⟩
              · have := List.all_eq_true.mp hself act hact
                cases hd : act.dest with
                | self j => simp only [Dest.path]; exact dropLast_below p i r hrne _
                | sec sc j => simp [hd] at this
              · have hlen : (hist ++ [i]).length = hist.length + 1 := by simp
                have := ih ccls path (hist ++ [i]) oi.2 oi.1 (p ++ Step.idx i :: r) hr (by rw [hlen]; exact hchild) w hwc
                exact below_trans p i r w oi.2 this
            | _ => simp [hr] at hwl
      | _ => simp [hc] at hw

end Aoe.Props.CommitFrame

namespace Aoe.Props.CommitFrame
open Aoe Aoe.Codec Aoe.Lens Aoe.Commit Aoe.Props.Links
open Aoe.Props.C05 (Diverge frame get_set)

/-! ## a committed struct list holds as many records as the manager holds objects (C04) -/

theorem diverge_append (p q r : List Step) (h : Diverge p q) : Diverge (p ++ r) q := by
  induction p generalizing q with
  | nil => cases q <;> exact absurd h id
  | cons a p ih =>
    cases q with
    | nil => exact absurd h id
    | cons b q =>
      rcases h with h | ⟨h1, h2⟩
      · exact Or.inl h
      · exact Or.inr ⟨h1, ih q h2⟩

/-- unresolved path of a refresh destination, relative to the link path -/
def destPPath (path : List PStep) : Dest → List PStep
  | .self i => path.dropLast ++ [PStep.fld i]
  | .sec sc i => [PStep.fld sc, PStep.fld i]

theorem resolve_dropLast (hist : List Nat) (path : List PStep) (p : List Step) (h : resolve hist path = some p) :
    resolve hist path.dropLast = some p.dropLast := by
  by_cases hne : path = []
  · subst hne
    simp only [resolve, Option.some.injEq] at h
    subst h; rfl
  · have hsplit : path = path.dropLast ++ [path.getLast hne] := (List.dropLast_concat_getLast hne).symm
    generalize path.getLast hne = x at hsplit
    generalize path.dropLast = dl at hsplit ⊢
    subst hsplit
    rw [resolve_append] at h
    cases hd : resolve hist dl with
    | none => simp [hd] at h
    | some pa =>
      simp only [hd, Option.bind] at h
      cases x with
      | fld i =>
        simp only [resolve, Option.map, Option.some.injEq] at h
        subst h; simp
      | hidx k =>
        simp only [resolve] at h
        cases hk : hist[k]? with
        | none => simp [hk] at h
        | some n =>
          simp only [hk, Option.map, Option.some.injEq] at h
          subst h; simp

theorem resolve_dest (hist : List Nat) (path : List PStep) (p : List Step) (d : Dest)
    (hp : resolve hist path = some p) : resolve hist (destPPath path d) = some (d.path (dropLastStep p)) := by
  cases d with
  | self i =>
    simp only [destPPath, Dest.path, dropLastStep, resolve_append, resolve_dropLast hist path p hp]
    simp [resolve]
  | sec sc i => simp [destPPath, Dest.path, resolve]

/-- static: everything the push of link `l` writes (its retriever, its refresh targets, its child objects) stays away
from the unresolved path `target` -/
def linkAway (classes : List ClassSpec) (fuel k : Nat) (target : List PStep) (l : LinkKind) : Bool :=
  match l with
  | .plain path acts _ => PDiverge path target && acts.all (fun a => PDiverge (destPPath path a.dest) target)
  | .objs path ccls _ _ _ acts _ =>
    PDiverge path target && acts.all (fun a => PDiverge (destPPath path a.dest) target) &&
      wellNested classes fuel ccls path k
  | _ => true

/-- … semantically: any predicate kept by all writes that diverge from the target is kept by the push of `l` -/
theorem linkAway_pres (classes : List ClassSpec) (fuel : Nat) (hist : List Nat) (target : List PStep) (t : List Step)
    (ht : resolve hist target = some t) (Q : Val → Prop) (hQ : ∀ w, Diverge w t → Pres Q w)
    (lv : (Nat × LinkKind) × Val) (h : linkAway classes fuel hist.length target lv.1.2 = true) :
    AllPres Q (linkFoot (foot classes fuel) hist lv) := by
  obtain ⟨⟨a, k⟩, v⟩ := lv
  intro w hw
  cases k with
  | hist n => simp [linkFoot] at hw
  | skip => simp [linkFoot] at hw
  | plain path acts names =>
    simp only [linkAway, Bool.and_eq_true] at h
    simp only [linkFoot] at hw
    cases hr : resolve hist path with
    | none => simp [hr] at hw
    | some p =>
      simp only [hr, List.mem_cons, List.mem_map] at hw
      rcases hw with rfl | ⟨act, hact, rfl⟩
      · exact hQ _ (resolve_diverge hist path target _ t hr ht h.1)
      · exact hQ _ (resolve_diverge hist _ target _ t (resolve_dest hist path p act.dest hr) ht
                      (List.all_eq_true.mp h.2 act hact))
  | objs path ccls defaults childNames guards acts names =>
    simp only [linkAway, Bool.and_eq_true] at h
    simp only [linkFoot] at hw
    cases hr : resolve hist path with
    | none => simp [hr] at hw
    | some p =>
      cases v with
      | list os =>
        simp only [hr, List.mem_cons, List.mem_append, List.mem_map, List.mem_flatMap] at hw
        rcases hw with rfl | ⟨act, hact, rfl⟩ | ⟨oi, hoi, hwc⟩
        · exact hQ _ (resolve_diverge hist path target _ t hr ht h.1.1)
        · exact hQ _ (resolve_diverge hist _ target _ t (resolve_dest hist path p act.dest hr) ht
                        (List.all_eq_true.mp h.1.2 act hact))
        · obtain ⟨r, rfl⟩ := foot_below classes fuel ccls path hist oi.2 oi.1 p hr h.2 w hwc
          exact hQ _ (diverge_append p t _ (resolve_diverge hist path target _ t hr ht h.1.1))
      | _ => simp [hr] at hw

/-- **a committed struct list holds exactly as many records as the object holds objects**: the push of the
object-list link establishes it, the child commits write strictly below their records, and every link pushed
afterwards stays away from the list (all side conditions are decidable checks on the generated class table) -/
theorem commit_objs_len (classes : List ClassSpec) (fuel cls : Nat) (hist : List Nat) (vals : List Val) (s s' : Sections)
    (c : ClassSpec) (hc : classes[cls]? = some c)
    (h : commitObj classes (fuel + 1) cls hist (.strct vals) s = .ok s')
    (L1 L2 : List ((Nat × LinkKind) × Val)) (a : Nat) (path : List PStep) (ccls : Nat) (defaults : List Val)
    (childNames : List Nat) (guards : List (Nat × Expr)) (acts : List RefreshAct) (names : List Nat) (os : List Val)
    (hsplit : c.links.zip vals = L1 ++ ((a, .objs path ccls defaults childNames guards acts names), .list os) :: L2)
    (p : List Step) (hp : resolve hist path = some p)
    (hnest : wellNested classes fuel ccls path hist.length = true)
    (hown : acts.all (fun x => PDiverge (destPPath path x.dest) path) = true)
    (haway : ∀ lv ∈ L1, linkAway classes fuel hist.length path lv.1.2 = true) :
    ListLen p os.length s'.root := by
  simp only [commitObj, hc, hsplit] at h
  rw [List.reverse_append, List.reverse_cons, List.append_assoc, List.foldlM_append] at h
  simp only [bind, Except.bind] at h
  cases hA : List.foldlM (pushLink (commitObj classes fuel) hist) s L2.reverse with
  | error e => rw [hA] at h; cases h
  | ok sA =>
    rw [hA] at h
    simp only [List.singleton_append, List.foldlM, bind, Except.bind] at h
    cases hB : pushLink (commitObj classes fuel) hist sA
        ((a, .objs path ccls defaults childNames guards acts names), .list os) with
    | error e => rw [hB] at h; cases h
    | ok sB =>
      rw [hB] at h
      have hlenQ : ∀ w, Diverge w p → Pres (ListLen p os.length) w := fun w hd => pres_len_diverge p w _ hd
      have h1 : ListLen p os.length sB.root := by
        refine pushLink_objs_len (commitObj classes fuel) (foot classes fuel) hist sA sB a path ccls defaults childNames
          guards acts names os p hp ?_ ?_ ?_ hB
        · intro hh o t t' ht hpres hq
          exact commitObj_inv _ classes fuel ccls hh o t t' ht hpres hq
        · intro oi hoi w hw
          exact pres_len_of_below p w _ oi.2 (foot_below classes fuel ccls path hist oi.2 oi.1 p hp hnest w hw)
        · intro act hact
          exact hlenQ _ (resolve_diverge hist _ path _ p (resolve_dest hist path p act.dest hp) hp
                          (List.all_eq_true.mp hown act hact))
      refine foldlM_inv (ListLen p os.length) _ L1.reverse ?_ sB s' h h1
      intro lv hlv t t' ht hq
      refine pushLink_inv _ (commitObj classes fuel) (foot classes fuel) ?_ hist t t' lv ht ?_ hq
      · intro cc hh o u u' hu hpres hQu
        exact commitObj_inv _ classes fuel cc hh o u u' hu hpres hQu
      · exact linkAway_pres classes fuel hist path p hp _ hlenQ lv (haway lv (by simpa using hlv))

end Aoe.Props.CommitFrame

namespace Aoe.Props.CommitFrame
open Aoe Aoe.Codec Aoe.Lens Aoe.Commit Aoe.Props.Links

theorem mem_take_zip_fst {α β : Type} (j : Nat) (l : List α) (v : List β) (x : α × β)
    (h : x ∈ (l.zip v).take j) : x.1 ∈ l.take j := by
  induction j generalizing l v with
  | zero => simp at h
  | succ j ih =>
    cases l with
    | nil => simp at h
    | cons a l =>
      cases v with
      | nil => simp at h
      | cons b v =>
        simp only [List.zip_cons_cons, List.take_succ_cons, List.mem_cons] at h ⊢
        rcases h with rfl | h
        · exact Or.inl rfl
        · exact Or.inr (ih l v h)

/-- the decidable side conditions of `commit_objs_len` for link number `j` of class `c` at nesting depth `k` -/
def listSafe (classes : List ClassSpec) (fuel : Nat) (c : ClassSpec) (k j : Nat) : Bool :=
  match c.links[j]? with
  | some (_, .objs path ccls _ _ _ acts _) =>
    wellNested classes fuel ccls path k && acts.all (fun x => PDiverge (destPPath path x.dest) path) &&
      (c.links.take j).all (fun l => linkAway classes fuel k path l.2)
  | _ => false

/-- `commit_objs_len` with its side conditions packed into the decidable `listSafe` -/
theorem commit_objs_len_of_safe (classes : List ClassSpec) (fuel cls : Nat) (hist : List Nat) (vals : List Val)
    (s s' : Sections) (c : ClassSpec) (hc : classes[cls]? = some c)
    (h : commitObj classes (fuel + 1) cls hist (.strct vals) s = .ok s')
    (j : Nat) (hsafe : listSafe classes fuel c hist.length j = true)
    (os : List Val) (hv : vals[j]? = some (.list os)) :
    ∃ a path ccls defaults childNames guards acts names,
      c.links[j]? = some (a, .objs path ccls defaults childNames guards acts names) ∧
      ∀ p, resolve hist path = some p → ListLen p os.length s'.root := by
  unfold listSafe at hsafe
  cases hl : c.links[j]? with
  | none => simp [hl] at hsafe
  | some l =>
    obtain ⟨a, k⟩ := l
    cases k with
    | objs path ccls defaults childNames guards acts names =>
      simp only [hl, Bool.and_eq_true] at hsafe
      obtain ⟨⟨hnest, hown⟩, haway⟩ := hsafe
      refine ⟨a, path, ccls, defaults, childNames, guards, acts, names, rfl, ?_⟩
      have hjl : j < c.links.length := by
        rcases List.getElem?_eq_some_iff.mp hl with ⟨h', _⟩; exact h'
      have hjv : j < vals.length := by
        rcases List.getElem?_eq_some_iff.mp hv with ⟨h', _⟩; exact h'
      have hjz : j < (c.links.zip vals).length := by simp; omega
      have hzj : (c.links.zip vals)[j] = ((a, LinkKind.objs path ccls defaults childNames guards acts names), Val.list os) := by
        rw [List.getElem_zip]
        have h1 := List.getElem?_eq_some_iff.mp hl
        have h2 := List.getElem?_eq_some_iff.mp hv
        obtain ⟨_, e1⟩ := h1
        obtain ⟨_, e2⟩ := h2
        simp [e1, e2]
      have hsplit : c.links.zip vals = (c.links.zip vals).take j ++
          ((a, LinkKind.objs path ccls defaults childNames guards acts names), Val.list os) :: (c.links.zip vals).drop (j + 1) := by
        rw [← hzj, List.getElem_cons_drop]; exact (List.take_append_drop j _).symm
      intro p hp
      refine commit_objs_len classes fuel cls hist vals s s' c hc h _ _ a path ccls defaults childNames guards acts names os
        hsplit p hp hnest hown ?_
      intro lv hlv
      exact List.all_eq_true.mp haway lv.1 (mem_take_zip_fst j c.links vals lv hlv)
    | _ => simp [hl] at hsafe

end Aoe.Props.CommitFrame

namespace Aoe.Props.CommitFrame
open Aoe Aoe.Codec Aoe.Lens Aoe.Commit Aoe.Props.Links
open Aoe.Props.C05 (Diverge frame get_set)

/-! ## the stored count equals the number of stored records (C04) -/

/-- `nm` occurs in `names` for the first time at position `j` -/
def firstAt : List Nat → Nat → Nat → Bool
  | [], _, _ => false
  | x :: _, nm, 0 => x == nm
  | x :: r, nm, j + 1 => x != nm && firstAt r nm j

theorem zip_get_firstAt (names : List Nat) (vs : List Val) (nm j : Nat) (v : Val)
    (hf : firstAt names nm j = true) (hv : vs[j]? = some v) : Rec.get? (names.zip vs) nm = some v := by
  induction names generalizing vs j with
  | nil => simp [firstAt] at hf
  | cons x r ih =>
    cases vs with
    | nil => simp at hv
    | cons y ys =>
      cases j with
      | zero =>
        simp only [firstAt, beq_iff_eq] at hf
        simp only [List.getElem?_cons_zero, Option.some.injEq] at hv
        subst hf; subst hv
        simp [Rec.get?]
      | succ j =>
        simp only [firstAt, Bool.and_eq_true, bne_iff_ne, ne_eq] at hf
        simp only [List.getElem?_cons_succ] at hv
        have := ih ys j hf.2 hv
        simp only [Rec.get?, List.zip_cons_cons, List.find?] at this ⊢
        have hx : (x == nm) = false := by simpa using hf.1
        simp only [hx]
        exact this

theorem getAt_append_fld (rp : List Step) (j : Nat) (t x : Val) (h : getAt (rp ++ [Step.fld j]) t = some x) :
    ∃ vs, getAt rp t = some (.strct vs) ∧ vs[j]? = some x := by
  induction rp generalizing t with
  | nil =>
    cases t with
    | strct vs =>
      simp only [List.nil_append, getAt] at h
      cases hj : vs[j]? with
      | none => simp [hj] at h
      | some y => simp only [hj, Option.some.injEq] at h; subst h; exact ⟨vs, rfl, hj⟩
    | _ => simp [getAt] at h
  | cons a rp ih =>
    cases a with
    | fld i =>
      cases t with
      | strct vs =>
        simp only [List.cons_append, getAt] at h ⊢
        cases hi : vs[i]? with
        | none => simp [hi] at h
        | some y => simp only [hi] at h ⊢; exact ih y h
      | _ => simp [getAt] at h
    | idx i =>
      cases t with
      | list vs =>
        simp only [List.cons_append, getAt] at h ⊢
        cases hi : vs[i]? with
        | none => simp [hi] at h
        | some y => simp only [hi] at h ⊢; exact ih y h
      | _ => simp [getAt] at h

/-- a resolved path whose unresolved form ends with a field step ends with that field step -/
theorem resolve_last_fld (hist : List Nat) (path : List PStep) (p : List Step) (jj : Nat)
    (hp : resolve hist path = some p) (hl : path.getLast? = some (PStep.fld jj)) :
    p = dropLastStep p ++ [Step.fld jj] := by
  have hne : path ≠ [] := by intro e; subst e; simp at hl
  have hsplit : path = path.dropLast ++ [PStep.fld jj] := by
    have := (List.dropLast_concat_getLast hne).symm
    rw [List.getLast?_eq_some_getLast hne] at hl
    simp only [Option.some.injEq] at hl
    rw [hl] at this; exact this
  have hd := resolve_dropLast hist path p hp
  rw [hsplit, resolve_append, hd] at hp
  simp only [Option.bind, resolve, Option.map, Option.some.injEq] at hp
  unfold dropLastStep
  exact hp.symm

/-- **count = number of records after the push of a counted object list** (single `count := len(list)` refresh) -/
theorem pushLink_objs_count (rc : Nat → List Nat → Val → Sections → Except Err Sections)
    (F : Nat → List Nat → Val → List (List Step)) (hist : List Nat)
    (s s' : Sections) (a : Nat) (path : List PStep) (ccls : Nat) (defaults : List Val) (childNames : List Nat)
    (guards : List (Nat × Expr)) (names : List Nat) (os : List Val) (p : List Step) (ci nm jj : Nat)
    (hp : resolve hist path = some p) (hlast : path.getLast? = some (PStep.fld jj)) (hfirst : firstAt names nm jj = true)
    (hrc : ∀ h o t t', rc ccls h o t = .ok t' → AllPres (ListLen p os.length) (F ccls h o) →
      ListLen p os.length t.root → ListLen p os.length t'.root)
    (hch : ∀ oi ∈ os.zipIdx, AllPres (ListLen p os.length) (F ccls (hist ++ [oi.2]) oi.1))
    (h : pushLink rc hist s ((a, .objs path ccls defaults childNames guards
            [{ dest := .self ci, expr := .len (.ref (.self nm)) }] names), .list os) = .ok s') :
    getAt (dropLastStep p ++ [Step.fld ci]) s'.root = some (.int os.length) := by
  obtain ⟨p', old, dflt, s1, s2, hr, hg, hw, hf, ha⟩ :=
    pushLink_objs_steps rc hist s s' a path ccls defaults childNames guards _ names os h
  rw [hp] at hr; cases hr
  have h1 : ListLen p os.length s1.root := by
    cases hs : setAt p s.root (.list (resizeList old os.length dflt)) with
    | none => simp [hs, Option.bind] at hw
    | some r =>
      simp only [hs, Option.bind] at hw
      rw [(withRoot_some s s1 r hw).1]
      exact ⟨_, get_set p s.root _ r hs, resizeList_length old os.length dflt⟩
  have h2 : ListLen p os.length s2.root := by
    refine foldlM_inv (ListLen p os.length) _ (os.zipIdx) ?_ s1 s2 hf h1
    intro oi hoi t t' ht hQt
    exact hrc (hist ++ [oi.2]) oi.1 t t' ht (hch oi hoi) hQt
  obtain ⟨l, hl, hlen⟩ := h2
  rw [resolve_last_fld hist path p jj hp hlast] at hl
  obtain ⟨vs, hrec, hvj⟩ := getAt_append_fld _ jj _ _ hl
  have hlook : (s2.env names (.strct vs)).lookup (.self nm) = .ok (.list l) := by
    simp only [Env.lookup, Sections.env, zip_get_firstAt names vs nm jj _ hfirst hvj]
  have := count_equals_length ci nm (dropLastStep p) names s2 s' (.strct vs) l hrec hlook ha
  rw [this, hlen]

end Aoe.Props.CommitFrame

namespace Aoe.Props.CommitFrame
open Aoe Aoe.Codec Aoe.Lens Aoe.Commit Aoe.Props.Links
open Aoe.Props.C05 (Diverge frame get_set)

/-- **after the commit of an object, the count retriever of a counted object list holds the number of objects** (and
the struct list holds that many records, `commit_objs_len`): established by the push of the link, kept by every link
pushed afterwards -/
theorem commit_objs_count (classes : List ClassSpec) (fuel cls : Nat) (hist : List Nat) (vals : List Val) (s s' : Sections)
    (c : ClassSpec) (hc : classes[cls]? = some c)
    (h : commitObj classes (fuel + 1) cls hist (.strct vals) s = .ok s')
    (L1 L2 : List ((Nat × LinkKind) × Val)) (a : Nat) (path : List PStep) (ccls : Nat) (defaults : List Val)
    (childNames : List Nat) (guards : List (Nat × Expr)) (names : List Nat) (os : List Val) (ci nm jj : Nat)
    (hsplit : c.links.zip vals = L1 ++ ((a, .objs path ccls defaults childNames guards
        [{ dest := .self ci, expr := .len (.ref (.self nm)) }] names), .list os) :: L2)
    (p : List Step) (hp : resolve hist path = some p)
    (hlast : path.getLast? = some (PStep.fld jj)) (hfirst : firstAt names nm jj = true)
    (hnest : wellNested classes fuel ccls path hist.length = true)
    (haway : ∀ lv ∈ L1, linkAway classes fuel hist.length (destPPath path (.self ci)) lv.1.2 = true) :
    getAt (dropLastStep p ++ [Step.fld ci]) s'.root = some (.int os.length) := by
  simp only [commitObj, hc, hsplit] at h
  rw [List.reverse_append, List.reverse_cons, List.append_assoc, List.foldlM_append] at h
  simp only [bind, Except.bind] at h
  cases hA : List.foldlM (pushLink (commitObj classes fuel) hist) s L2.reverse with
  | error e => rw [hA] at h; cases h
  | ok sA =>
    rw [hA] at h
    simp only [List.singleton_append, List.foldlM, bind, Except.bind] at h
    cases hB : pushLink (commitObj classes fuel) hist sA
        ((a, .objs path ccls defaults childNames guards [{ dest := .self ci, expr := .len (.ref (.self nm)) }] names), .list os) with
    | error e => rw [hB] at h; cases h
    | ok sB =>
      rw [hB] at h
      have h1 : getAt (dropLastStep p ++ [Step.fld ci]) sB.root = some (.int os.length) := by
        refine pushLink_objs_count (commitObj classes fuel) (foot classes fuel) hist sA sB a path ccls defaults childNames
          guards names os p ci nm jj hp hlast hfirst ?_ ?_ hB
        · intro hh o t t' ht hpres hq
          exact commitObj_inv _ classes fuel ccls hh o t t' ht hpres hq
        · intro oi hoi w hw
          exact pres_len_of_below p w _ oi.2 (foot_below classes fuel ccls path hist oi.2 oi.1 p hp hnest w hw)
      have hcp : resolve hist (destPPath path (.self ci)) = some (dropLastStep p ++ [Step.fld ci]) := by
        have := resolve_dest hist path p (.self ci) hp
        simpa [Dest.path] using this
      let Q : Val → Prop := fun t => getAt (dropLastStep p ++ [Step.fld ci]) t = some (.int os.length)
      refine foldlM_inv Q _ L1.reverse ?_ sB s' h h1
      intro lv hlv t t' ht hq
      refine pushLink_inv Q (commitObj classes fuel) (foot classes fuel) ?_ hist t t' lv ht ?_ hq
      · intro cc hh o u u' hu hpres hQu
        exact commitObj_inv Q classes fuel cc hh o u u' hu hpres hQu
      · exact linkAway_pres classes fuel hist _ _ hcp Q (fun w hd => pres_of_diverge _ w _ hd) lv
          (haway lv (by simpa using hlv))

/-- the decidable side conditions of `commit_objs_count` for link number `j` of class `c` at nesting depth `k` -/
def countSafe (classes : List ClassSpec) (fuel : Nat) (c : ClassSpec) (k j : Nat) : Bool :=
  match c.links[j]? with
  | some (_, .objs path ccls _ _ _ [{ dest := .self ci, expr := .len (.ref (.self nm)) }] names) =>
    (match path.getLast? with
     | some (.fld jj) => firstAt names nm jj
     | _ => false) &&
    wellNested classes fuel ccls path k &&
      (c.links.take j).all (fun l => linkAway classes fuel k (destPPath path (.self ci)) l.2)
  | _ => false

end Aoe.Props.CommitFrame

namespace Aoe.Props.CommitFrame
open Aoe Aoe.Codec Aoe.Lens Aoe.Commit Aoe.Props.Links

/-- `commit_objs_count` with its side conditions packed into the decidable `countSafe` -/
theorem commit_objs_count_of_safe (classes : List ClassSpec) (fuel cls : Nat) (hist : List Nat) (vals : List Val)
    (s s' : Sections) (c : ClassSpec) (hc : classes[cls]? = some c)
    (h : commitObj classes (fuel + 1) cls hist (.strct vals) s = .ok s')
    (j : Nat) (hsafe : countSafe classes fuel c hist.length j = true)
    (os : List Val) (hv : vals[j]? = some (.list os)) :
    ∃ a path ccls defaults childNames guards names ci nm,
      c.links[j]? = some (a, .objs path ccls defaults childNames guards
        [{ dest := .self ci, expr := .len (.ref (.self nm)) }] names) ∧
      ∀ p, resolve hist path = some p →
        getAt (dropLastStep p ++ [Step.fld ci]) s'.root = some (.int os.length) := by
  unfold countSafe at hsafe
  split at hsafe
  · rename_i a path ccls defaults childNames guards ci nm names hl
    simp only [Bool.and_eq_true] at hsafe
    obtain ⟨⟨hlf, hnest⟩, haway⟩ := hsafe
    split at hlf
    · rename_i jj hlast
      refine ⟨a, path, ccls, defaults, childNames, guards, names, ci, nm, hl, ?_⟩
      have hjl : j < c.links.length := by
        rcases List.getElem?_eq_some_iff.mp hl with ⟨h', _⟩; exact h'
      have hjv : j < vals.length := by
        rcases List.getElem?_eq_some_iff.mp hv with ⟨h', _⟩; exact h'
      have hjz : j < (c.links.zip vals).length := by simp; omega
      have hzj : (c.links.zip vals)[j] = ((a, LinkKind.objs path ccls defaults childNames guards
          [{ dest := .self ci, expr := .len (.ref (.self nm)) }] names), Val.list os) := by
        rw [List.getElem_zip]
        obtain ⟨_, e1⟩ := List.getElem?_eq_some_iff.mp hl
        obtain ⟨_, e2⟩ := List.getElem?_eq_some_iff.mp hv
        simp [e1, e2]
      have hsplit : c.links.zip vals = (c.links.zip vals).take j ++
          ((a, LinkKind.objs path ccls defaults childNames guards
            [{ dest := .self ci, expr := .len (.ref (.self nm)) }] names), Val.list os) :: (c.links.zip vals).drop (j + 1) := by
        rw [← hzj, List.getElem_cons_drop]; exact (List.take_append_drop j _).symm
      intro p hp
      refine commit_objs_count classes fuel cls hist vals s s' c hc h _ _ a path ccls defaults childNames guards names os
        ci nm jj hsplit p hp hlast hlf hnest ?_
      intro lv hlv
      exact List.all_eq_true.mp haway lv.1 (mem_take_zip_fst j c.links vals lv hlv)
    · cases hlf
  · cases hsafe

end Aoe.Props.CommitFrame

namespace Aoe.Props.CommitFrame
open Aoe Aoe.Codec Aoe.Lens Aoe.Commit Aoe.Props.Links
open Aoe.Props.C05 (Diverge frame get_set)

/-! ## what a plain link pushed is what the section holds after the commit - for every class (C03, C05) -/

/-- **a value pushed through a plain link is what its retriever holds after the whole commit**, also in classes with
object lists and refresh actions: the link's own refresh targets and everything pushed afterwards stay away from it -/
theorem commit_plain_value (classes : List ClassSpec) (fuel cls : Nat) (hist : List Nat) (vals : List Val) (s s' : Sections)
    (c : ClassSpec) (hc : classes[cls]? = some c)
    (h : commitObj classes (fuel + 1) cls hist (.strct vals) s = .ok s')
    (L1 L2 : List ((Nat × LinkKind) × Val)) (a : Nat) (path : List PStep) (acts : List RefreshAct) (names : List Nat) (v : Val)
    (hsplit : c.links.zip vals = L1 ++ ((a, .plain path acts names), v) :: L2)
    (p : List Step) (hp : resolve hist path = some p)
    (hown : acts.all (fun x => PDiverge (destPPath path x.dest) path) = true)
    (haway : ∀ lv ∈ L1, linkAway classes fuel hist.length path lv.1.2 = true) :
    getAt p s'.root = some v := by
  simp only [commitObj, hc, hsplit] at h
  rw [List.reverse_append, List.reverse_cons, List.append_assoc, List.foldlM_append] at h
  simp only [bind, Except.bind] at h
  cases hA : List.foldlM (pushLink (commitObj classes fuel) hist) s L2.reverse with
  | error e => rw [hA] at h; cases h
  | ok sA =>
    rw [hA] at h
    simp only [List.singleton_append, List.foldlM, bind, Except.bind] at h
    cases hB : pushLink (commitObj classes fuel) hist sA ((a, .plain path acts names), v) with
    | error e => rw [hB] at h; cases h
    | ok sB =>
      rw [hB] at h
      let Q : Val → Prop := fun t => getAt p t = some v
      have h1 : Q sB.root := by
        simp only [pushLink, bind, Except.bind, hp, pure, Except.pure] at hB
        cases hw : (setAt p sA.root v).bind sA.withRoot with
        | none => simp [hw] at hB
        | some s1 =>
          simp only [hw] at hB
          have hq1 : Q s1.root := by
            cases hs : setAt p sA.root v with
            | none => simp [hs, Option.bind] at hw
            | some r =>
              simp only [hs, Option.bind] at hw
              show getAt p s1.root = some v
              rw [(withRoot_some sA s1 r hw).1]
              exact get_set p sA.root v r hs
          refine applyActs_inv Q acts (dropLastStep p) names ?_ s1 sB hB hq1
          intro act hact
          exact pres_of_diverge p _ _ (resolve_diverge hist _ path _ p (resolve_dest hist path p act.dest hp) hp
                  (List.all_eq_true.mp hown act hact))
      refine foldlM_inv Q _ L1.reverse ?_ sB s' h h1
      intro lv hlv t t' ht hq
      refine pushLink_inv Q (commitObj classes fuel) (foot classes fuel) ?_ hist t t' lv ht ?_ hq
      · intro cc hh o u u' hu hpres hQu
        exact commitObj_inv Q classes fuel cc hh o u u' hu hpres hQu
      · exact linkAway_pres classes fuel hist path p hp Q (fun w hd => pres_of_diverge p w _ hd) lv
          (haway lv (by simpa using hlv))

/-- the decidable side conditions of `commit_plain_value` for link number `j` of class `c` at nesting depth `k` -/
def plainSafe (classes : List ClassSpec) (fuel : Nat) (c : ClassSpec) (k j : Nat) : Bool :=
  match c.links[j]? with
  | some (_, .plain path acts _) =>
    acts.all (fun x => PDiverge (destPPath path x.dest) path) &&
      (c.links.take j).all (fun l => linkAway classes fuel k path l.2)
  | _ => false

/-- every plain link of the class is safe -/
def allPlainSafe (classes : List ClassSpec) (fuel : Nat) (c : ClassSpec) (k : Nat) : Bool :=
  (List.range c.links.length).all (fun j =>
    match c.links[j]? with
    | some (_, .plain _ _ _) => plainSafe classes fuel c k j
    | _ => true)

theorem commit_plain_value_of_safe (classes : List ClassSpec) (fuel cls : Nat) (hist : List Nat) (vals : List Val)
    (s s' : Sections) (c : ClassSpec) (hc : classes[cls]? = some c)
    (h : commitObj classes (fuel + 1) cls hist (.strct vals) s = .ok s')
    (j : Nat) (hsafe : plainSafe classes fuel c hist.length j = true) (v : Val) (hv : vals[j]? = some v) :
    ∃ a path acts names, c.links[j]? = some (a, .plain path acts names) ∧
      ∀ p, resolve hist path = some p → getAt p s'.root = some v := by
  unfold plainSafe at hsafe
  split at hsafe
  · rename_i a path acts names hl
    simp only [Bool.and_eq_true] at hsafe
    obtain ⟨hown, haway⟩ := hsafe
    refine ⟨a, path, acts, names, hl, ?_⟩
    have hjl : j < c.links.length := by
      rcases List.getElem?_eq_some_iff.mp hl with ⟨h', _⟩; exact h'
    have hjv : j < vals.length := by
      rcases List.getElem?_eq_some_iff.mp hv with ⟨h', _⟩; exact h'
    have hjz : j < (c.links.zip vals).length := by simp; omega
    have hzj : (c.links.zip vals)[j] = ((a, LinkKind.plain path acts names), v) := by
      rw [List.getElem_zip]
      obtain ⟨_, e1⟩ := List.getElem?_eq_some_iff.mp hl
      obtain ⟨_, e2⟩ := List.getElem?_eq_some_iff.mp hv
      simp [e1, e2]
    have hsplit : c.links.zip vals = (c.links.zip vals).take j ++
        ((a, LinkKind.plain path acts names), v) :: (c.links.zip vals).drop (j + 1) := by
      rw [← hzj, List.getElem_cons_drop]; exact (List.take_append_drop j _).symm
    intro p hp
    refine commit_plain_value classes fuel cls hist vals s s' c hc h _ _ a path acts names v hsplit p hp hown ?_
    intro lv hlv
    exact List.all_eq_true.mp haway lv.1 (mem_take_zip_fst j c.links vals lv hlv)
  · cases hsafe

end Aoe.Props.CommitFrame

namespace Aoe.Props.CommitFrame
open Aoe Aoe.Codec Aoe.Lens Aoe.Commit Aoe.Props.Links

/-- **every plain link of a class reads back what was pushed** (class-level form of `commit_plain_value`) -/
theorem commit_plain_values (classes : List ClassSpec) (fuel cls : Nat) (hist : List Nat) (vals : List Val)
    (s s' : Sections) (c : ClassSpec) (hc : classes[cls]? = some c)
    (h : commitObj classes (fuel + 1) cls hist (.strct vals) s = .ok s')
    (hall : allPlainSafe classes fuel c hist.length = true)
    (j a : Nat) (path : List PStep) (acts : List RefreshAct) (names : List Nat) (v : Val)
    (hl : c.links[j]? = some (a, .plain path acts names)) (hv : vals[j]? = some v)
    (p : List Step) (hp : resolve hist path = some p) : getAt p s'.root = some v := by
  have hj : j < c.links.length := by
    rcases List.getElem?_eq_some_iff.mp hl with ⟨h', _⟩; exact h'
  have hsafe : plainSafe classes fuel c hist.length j = true := by
    have := List.all_eq_true.mp hall j (List.mem_range.mpr hj)
    simpa [hl] using this
  obtain ⟨a', path', acts', names', hl', hval⟩ :=
    commit_plain_value_of_safe classes fuel cls hist vals s s' c hc h j hsafe v hv
  rw [hl] at hl'
  simp only [Option.some.injEq, Prod.mk.injEq, LinkKind.plain.injEq] at hl'
  obtain ⟨_, rfl, _, _⟩ := hl'
  exact hval p hp

end Aoe.Props.CommitFrame
