import Aoe.Props.Links
/-!
# The footprint of a commit (all classes, nested object lists, refresh actions)

`foot classes fuel cls hist obj` lists every place the commit of the object `obj` of class `cls` at index history `hist`
writes: the retriever of every plain link, the struct list of every object-list link, the destinations of the refresh
actions of both, and - recursively - the footprints of the child objects at `hist ++ [i]`.

`commitObj_frame`: whatever diverges from every path of the footprint holds after the commit exactly what it held before.
This is the C05 frame statement ("an edit lands where it belongs and nowhere else") for the whole engine - every class of
every version table, any nesting, any values - not only for plain classes (`Aoe.Props.Links.commit_frame`).
-/
namespace Aoe.Props.CommitFrame
open Aoe Aoe.Codec Aoe.Lens Aoe.Commit Aoe.Props.Links
open Aoe.Props.C05 (Diverge frame)

/-- `q` lies outside every path of `W` -/
def Outside (W : List (List Step)) (q : List Step) : Prop := ∀ w ∈ W, Diverge w q

/-- places the push of one (link, value) pair writes; `F` = footprint of a child commit -/
def linkFoot (F : Nat → List Nat → Val → List (List Step)) (hist : List Nat) (lv : (Nat × LinkKind) × Val) :
    List (List Step) :=
  match lv.1.2 with
  | .plain path acts _ =>
    match resolve hist path with
    | some p => p :: acts.map (fun a => a.dest.path (dropLastStep p))
    | none => []
  | .objs path ccls _ _ _ acts _ =>
    match resolve hist path, lv.2 with
    | some p, .list os =>
      p :: (acts.map (fun a => a.dest.path (dropLastStep p)) ++
            (os.zipIdx).flatMap (fun oi => F ccls (hist ++ [oi.2]) oi.1))
    | _, _ => []
  | _ => []

/-- the footprint of the commit of one object -/
def foot (classes : List ClassSpec) : Nat → Nat → List Nat → Val → List (List Step)
  | 0, _, _, _ => []
  | fuel + 1, cls, hist, obj =>
    match classes[cls]?, obj with
    | some c, .strct vals => (c.links.zip vals).flatMap (linkFoot (foot classes fuel) hist)
    | _, _ => []

/-- one write through `setAt … |>.bind withRoot` leaves every diverging place alone -/
theorem write_frame (s s' : Sections) (p q : List Step) (v : Val)
    (h : (setAt p s.root v).bind s.withRoot = some s') (hd : Diverge p q) :
    getAt q s'.root = getAt q s.root := by
  cases hs : setAt p s.root v with
  | none => simp [hs, Option.bind] at h
  | some r =>
    simp only [hs, Option.bind] at h
    rw [(withRoot_some s s' r h).1]
    exact frame p q s.root v r hd hs

/-- a fold of state transformers each of which keeps `q` keeps `q` -/
theorem foldlM_frame {α : Type} (f : Sections → α → Except Err Sections) (q : List Step) (l : List α)
    (hf : ∀ a ∈ l, ∀ s s', f s a = .ok s' → getAt q s'.root = getAt q s.root)
    (s s' : Sections) (h : l.foldlM f s = .ok s') : getAt q s'.root = getAt q s.root := by
  induction l generalizing s with
  | nil => simp only [List.foldlM, pure, Except.pure, Except.ok.injEq] at h; subst h; rfl
  | cons a l ih =>
    simp only [List.foldlM, bind, Except.bind] at h
    cases h1 : f s a with
    | error e => rw [h1] at h; cases h
    | ok s1 =>
      rw [h1] at h
      rw [ih (fun b hb => hf b (by simp [hb])) s1 h]
      exact hf a (by simp) s s1 h1

/-- the refresh actions write only their destinations -/
theorem applyActs_frame (acts : List RefreshAct) (recPath : List Step) (names : List Nat) (q : List Step)
    (hq : ∀ a ∈ acts, Diverge (a.dest.path recPath) q) (s s' : Sections)
    (h : applyActs acts recPath names s = .ok s') : getAt q s'.root = getAt q s.root := by
  unfold applyActs at h
  refine foldlM_frame _ q acts ?_ s s' h
  intro a ha s0 s1 h1
  simp only [bind, Except.bind] at h1
  cases hg : getAt recPath s0.root with
  | none => simp [hg] at h1
  | some selfRec =>
    simp only [hg, pure, Except.pure] at h1
    cases he : a.expr.eval (s0.env names selfRec) with
    | error e => simp [he] at h1
    | ok v =>
      simp only [he] at h1
      cases hw : (setAt (a.dest.path recPath) s0.root v).bind s0.withRoot with
      | none => simp [hw] at h1
      | some s2 =>
        simp only [hw, Except.ok.injEq] at h1
        subst h1
        exact write_frame s0 s2 _ q v hw (hq a ha)

/-- the push of one link writes only inside its footprint (given that child commits write only inside theirs) -/
theorem pushLink_frame (rc : Nat → List Nat → Val → Sections → Except Err Sections)
    (F : Nat → List Nat → Val → List (List Step)) (q : List Step)
    (hrc : ∀ ccls h o s s', rc ccls h o s = .ok s' → Outside (F ccls h o) q → getAt q s'.root = getAt q s.root)
    (hist : List Nat) (s s' : Sections) (lv : (Nat × LinkKind) × Val)
    (h : pushLink rc hist s lv = .ok s') (hq : Outside (linkFoot F hist lv) q) :
    getAt q s'.root = getAt q s.root := by
  obtain ⟨⟨a, k⟩, v⟩ := lv
  cases k with
  | hist n => simp only [pushLink, pure, Except.pure, Except.ok.injEq] at h; subst h; rfl
  | skip => simp only [pushLink, pure, Except.pure, Except.ok.injEq] at h; subst h; rfl
  | plain path acts names =>
    simp only [pushLink, bind, Except.bind] at h
    cases hr : resolve hist path with
    | none => simp [hr] at h
    | some p =>
      simp only [hr, pure, Except.pure] at h
      simp only [Outside, linkFoot, hr] at hq
      cases hw : (setAt p s.root v).bind s.withRoot with
      | none => simp [hw] at h
      | some s1 =>
        simp only [hw] at h
        rw [applyActs_frame acts (dropLastStep p) names q
              (fun a ha => hq _ (by simp; exact Or.inr ⟨a, ha, rfl⟩)) s1 s' h]
        exact write_frame s s1 p q v hw (hq p (by simp))
  | objs path ccls defaults childNames guards acts names =>
    simp only [pushLink, bind, Except.bind] at h
    cases hr : resolve hist path with
    | none => simp [hr] at h
    | some p =>
      simp only [hr, pure, Except.pure] at h
      cases v with
      | list os =>
        simp only at h
        simp only [Outside, linkFoot, hr] at hq
        cases hg : getAt p s.root with
        | none => simp [hg] at h
        | some ov =>
          cases ov with
          | list old =>
            simp only [hg] at h
            -- everything after the default struct has been obtained (it is only evaluated, nothing is written)
            have key : ∀ (dflt : Val) (s1 s2 : Sections),
                (setAt p s.root (.list (resizeList old os.length dflt))).bind s.withRoot = some s1 →
                (os.zipIdx).foldlM (fun (s : Sections) (oi : Val × Nat) => rc ccls (hist ++ [oi.2]) oi.1 s) s1 = .ok s2 →
                applyActs acts (dropLastStep p) names s2 = .ok s' → getAt q s'.root = getAt q s.root := by
              intro dflt s1 s2 hw hf h
              rw [applyActs_frame acts (dropLastStep p) names q
                    (fun a ha => hq _ (by simp; exact Or.inr (Or.inl ⟨a, ha, rfl⟩))) s2 s' h]
              rw [foldlM_frame _ q (os.zipIdx) ?_ s1 s2 hf]
              · exact write_frame s s1 p q _ hw (hq p (by simp))
              · intro oi hoi t t' ht
                refine hrc ccls (hist ++ [oi.2]) oi.1 t t' ht ?_
                intro w hw'
                exact hq w (by simp; exact Or.inr (Or.inr ⟨oi.1, oi.2, hoi, hw'⟩))
            by_cases hle : os.length ≤ old.length
            · rw [if_pos hle] at h
              try simp only [pure, Except.pure] at h
              cases hw : (setAt p s.root (.list (resizeList old os.length (Val.strct [])))).bind s.withRoot with
              | none => rw [hw] at h; cases h
              | some s1 =>
                rw [hw] at h
                simp only at h
                cases hf : (os.zipIdx).foldlM (fun (s : Sections) (oi : Val × Nat) => rc ccls (hist ++ [oi.2]) oi.1 s) s1 with
                | error e => rw [hf] at h; cases h
                | ok s2 => rw [hf] at h; exact key (Val.strct []) s1 s2 hw hf h
            · rw [if_neg hle] at h
              cases hdf : defaultStruct defaults childNames guards s with
              | error e => rw [hdf] at h; cases h
              | ok dflt =>
                rw [hdf] at h
                simp only at h
                cases hw : (setAt p s.root (.list (resizeList old os.length dflt))).bind s.withRoot with
                | none => rw [hw] at h; cases h
                | some s1 =>
                  rw [hw] at h
                  simp only at h
                  cases hf : (os.zipIdx).foldlM (fun (s : Sections) (oi : Val × Nat) => rc ccls (hist ++ [oi.2]) oi.1 s) s1 with
                  | error e => rw [hf] at h; cases h
                  | ok s2 => rw [hf] at h; exact key dflt s1 s2 hw hf h
          | _ => rw [hg] at h; cases h
      | _ => cases h

/-- **frame of a commit, all classes**: a place that diverges from every path of the object's footprint holds after the
commit what it held before -/
theorem commitObj_frame (classes : List ClassSpec) (q : List Step) (fuel : Nat) :
    ∀ (cls : Nat) (hist : List Nat) (obj : Val) (s s' : Sections),
      commitObj classes fuel cls hist obj s = .ok s' → Outside (foot classes fuel cls hist obj) q →
      getAt q s'.root = getAt q s.root := by
  induction fuel with
  | zero => intro cls hist obj s s' h; simp [commitObj] at h
  | succ fuel ih =>
    intro cls hist obj s s' h hq
    simp only [commitObj] at h
    cases hc : classes[cls]? with
    | none => simp [hc] at h
    | some c =>
      cases obj with
      | strct vals =>
        simp only [hc] at h
        simp only [foot, hc, Outside] at hq
        refine foldlM_frame _ q _ ?_ s s' h
        intro lv hlv t t' ht
        refine pushLink_frame (commitObj classes fuel) (foot classes fuel) q ?_ hist t t' lv ht ?_
        · intro ccls hh o u u' hu hou
          exact ih ccls hh o u u' hu hou
        · intro w hw
          exact hq w (List.mem_flatMap.mpr ⟨lv, by simpa using hlv, hw⟩)
      | _ => simp [hc] at h

/-- … and of a whole reconstruct (all managers in their fixed order) -/
theorem commitAll_frame (classes : List ClassSpec) (q : List Step) (managers : List Nat) (objs : List Val) (s s' : Sections)
    (h : commitAll classes managers objs s = .ok s')
    (hq : ∀ mo ∈ managers.zip objs, Outside (foot classes 4 mo.1 [] mo.2) q) :
    getAt q s'.root = getAt q s.root := by
  unfold commitAll at h
  refine foldlM_frame _ q _ ?_ s s' h
  intro mo hmo t t' ht
  exact commitObj_frame classes q 4 mo.1 [] mo.2 t t' ht (hq mo hmo)

/-! non-vacuity: the footprint of the demo object of `Aoe.Props.Links` and a place outside it -/
example : foot demoClasses 2 0 [] (.strct [.int 5, .int 0, .none, .str [0x62]]) =
    [[.fld 0, .fld 1], [.fld 1, .fld 0]] := by decide
example : Outside (foot demoClasses 2 0 [] (.strct [.int 5, .int 0, .none, .str [0x62]])) [.fld 0, .fld 0] := by
  intro w hw
  have : w = [.fld 0, .fld 1] ∨ w = [.fld 1, .fld 0] := by
    have h : foot demoClasses 2 0 [] (.strct [.int 5, .int 0, .none, .str [0x62]]) = [[.fld 0, .fld 1], [.fld 1, .fld 0]] := by decide
    rw [h] at hw; simpa using hw
  rcases this with rfl | rfl
  · exact Or.inr ⟨rfl, Or.inl (by decide)⟩
  · exact Or.inl (by decide)

end Aoe.Props.CommitFrame
