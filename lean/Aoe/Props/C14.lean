import Aoe.Lemmas.Area
/-!
# C14 – area selections are exactly the described tile sets

Property theorems only. Vocabulary (`Aoe/Lemmas/AreaSpec.lean`): `InRect` (raw rectangle), `InMap`, the declarative
`Pattern` (`InBlock`, `InLine`, `InCorner`, border distance), `Selected`, `RowLt` (row-major), `Valid` (positive
periods, a real axis – exactly the configurations on which no modelled Python operation raises), `blockCol/blockRow`,
`lineIdx`, `CornersDisjoint`, `perRow` (tiles-per-row of the grid chunk id: `PerRow.height` = pinned code,
`PerRow.width` = repaired code).

Every theorem holds for all map sizes, all rectangles (also partly or wholly outside the map, also `x1 > x2`), all
parameter values allowed by `Valid`, both axes, inverted or not. `0 < size` is the only assumption on the map.

Genuine defect F10: `chunks_separate_grid` needs `blockCols a ≤ perRow pr a`. That always holds for the repaired
`PerRow.width` (`chunks_separate_grid_fixed`), holds for the pinned `PerRow.height` when the visible rectangle is not
wider than high (`chunks_separate_grid_pinned`), and fails on the pinned code for a 5×3 rectangle
(`chunks_separate_grid_pinned_counter`).
-/
namespace Aoe.Props.C14
open Aoe.Area

/-! ### `to_coords` -/

/-- `to_coords` does not raise on a valid configuration -/
theorem toCoords_total (a : Area) (hv : Valid a) : ∃ l, toCoords a = .ok l :=
  ⟨coords a, toCoords_ok a hv⟩

/-- **exactly the described set**: a tile is returned iff it lies in the rectangle, on the map, and satisfies the
pattern (inverted: does not satisfy it) -/
theorem toCoords_spec (a : Area) (hv : Valid a) (hs : 0 < a.size) (l : List Tile) (h : toCoords a = .ok l)
    (t : Tile) : t ∈ l ↔ InRect a t ∧ InMap a t ∧ (Pattern a t ↔ a.inverted = false) := by
  rw [toCoords_ok a hv] at h
  cases h
  exact mem_coords_iff a hv hs t

/-- **row-major order, no tile twice** (whenever `to_coords` returns, valid configuration or not) -/
theorem toCoords_sorted_nodup (a : Area) (l : List Tile) (h : toCoords a = .ok l) :
    l.Pairwise RowLt ∧ l.Nodup := by
  have hs : l.Pairwise RowLt := List.Pairwise.sublist (filterE_sublist _ _ _ h) (candidates_sorted a)
  exact ⟨hs, nodup_of_sorted hs⟩

/-- **`is_within_selection` agrees with membership** for every tile of the map -/
theorem isWithin_agrees (a : Area) (hv : Valid a) (hs : 0 < a.size) (l : List Tile) (h : toCoords a = .ok l)
    (t : Tile) (hm : InMap a t) : ∃ b, isWithin a t.x t.y = .ok b ∧ (b = true ↔ t ∈ l) := by
  rw [toCoords_ok a hv] at h
  cases h
  refine ⟨within a t.x t.y, isWithin_ok a hv t.x t.y, ?_⟩
  rw [mem_coords]
  constructor
  · intro hw
    have hraw : inRawRect a t.x t.y = true := by
      unfold within at hw; rw [Bool.and_eq_true] at hw; exact hw.1
    have hr : InRect a t := by
      simp only [inRawRect, Bool.and_eq_true, decide_eq_true_eq] at hraw
      exact ⟨hraw.1.1.1, hraw.1.1.2, hraw.1.2, hraw.2⟩
    exact ⟨((vis_raw_iff a hs t).2 ⟨hr, hm⟩).1, hw⟩
  · exact fun h => h.2

/-- for a tile of the visible rectangle the code's modulus / comparison predicates say exactly `Pattern`
(blocks, lines, corner rectangles, border distance laid out from the first visible corner) -/
theorem pattern_is_declarative (a : Area) (hv : Valid a) (t : Tile) (h : InVis a t) :
    patB a t.x t.y = true ↔ Pattern a t := patB_iff a hv t h

/-! ### `to_chunks` is a partition -/

/-- `to_chunks` returns on every valid configuration except inverted corners -/
theorem toChunks_total (pr : PerRow) (a : Area) (hv : Valid a) (hs : 0 < a.size)
    (hc : ¬ (a.state = .corners ∧ a.inverted = true)) : ∃ cs, toChunksW pr a = .ok cs := by
  by_cases hst : a.state = .full ∨ a.state = .edge
  · exact ⟨_, toChunksW_full pr a hv hst⟩
  · obtain ⟨ks, _, _, h⟩ := toChunksW_group pr a hv hs ⟨fun e => hst (Or.inl e), fun e => hst (Or.inr e)⟩ hc
    exact ⟨_, h⟩

/-- inverted corner selections: the documented `ValueError` (unless the selection is empty: then no chunk) -/
theorem toChunks_inverted_corners (pr : PerRow) (a : Area) (hv : Valid a) (hs : a.state = .corners)
    (hi : a.inverted = true) (l : List Tile) (h : toCoords a = .ok l) :
    (l ≠ [] → toChunksW pr a = .error .valueError) ∧ (l = [] → toChunksW pr a = .ok []) := by
  rw [toCoords_ok a hv] at h
  cases h
  exact toChunksW_corners_inv pr a hv hs hi

/-- the closed form both partition theorems rest on: a chunkable state yields one chunk per occurring chunk id and
each chunk is the sub-sequence of `to_coords` with that id -/
private theorem chunks_closed (pr : PerRow) (a : Area) (hv : Valid a) (hs : 0 < a.size) (cs : List (List Tile))
    (hc : toChunksW pr a = .ok cs) (hst : ¬ (a.state = .full ∨ a.state = .edge)) (hne : coords a ≠ []) :
    ∃ ks : List Int, ks.Nodup ∧ (∀ k, k ∈ ks ↔ ∃ u, u ∈ coords a ∧ chunkIdW pr a u = .ok k) ∧
      cs = ks.map fun k => (coords a).filter fun u => cidOf pr a u == k := by
  have hci : ¬ (a.state = .corners ∧ a.inverted = true) := by
    rintro ⟨h1, h2⟩
    rw [(toChunksW_corners_inv pr a hv h1 h2).1 hne] at hc
    cases hc
  obtain ⟨ks, h1, h2, h3⟩ := toChunksW_group pr a hv hs ⟨fun e => hst (Or.inl e), fun e => hst (Or.inr e)⟩ hci
  rw [h3] at hc
  cases hc
  exact ⟨ks, h1, h2, rfl⟩

/-- **partition**: the chunks concatenated are a permutation of `to_coords`, chunks are pairwise disjoint, and every
selected tile lies in exactly one chunk (exactly one index of the returned list) -/
theorem chunks_partition (pr : PerRow) (a : Area) (hv : Valid a) (hs : 0 < a.size) (l : List Tile)
    (cs : List (List Tile)) (hl : toCoords a = .ok l) (hc : toChunksW pr a = .ok cs) :
    cs.flatten.Perm l ∧
    cs.Pairwise (fun c d => ∀ t, t ∈ c → t ∉ d) ∧
    (∀ t, t ∈ l → ∃ i, ∃ h : i < cs.length, t ∈ cs[i] ∧ ∀ j, ∀ hj : j < cs.length, t ∈ cs[j] → j = i) := by
  have hnd := (toCoords_sorted_nodup a l hl).2
  rw [toCoords_ok a hv] at hl
  cases hl
  have hperm : cs.flatten.Perm (coords a) := by
    by_cases hst : a.state = .full ∨ a.state = .edge
    · rw [toChunksW_full pr a hv hst] at hc
      cases hc
      simp
    · by_cases hne : coords a = []
      · by_cases hci : a.state = .corners ∧ a.inverted = true
        · rw [(toChunksW_corners_inv pr a hv hci.1 hci.2).2 hne] at hc
          cases hc
          simp [hne]
        · obtain ⟨ks, _, h2, h3⟩ :=
            toChunksW_group pr a hv hs ⟨fun e => hst (Or.inl e), fun e => hst (Or.inr e)⟩ hci
          rw [h3] at hc
          cases hc
          simp [hne]
      · obtain ⟨ks, h1, h2, rfl⟩ := chunks_closed pr a hv hs cs hc hst hne
        apply filters_flatten_perm _ ks h1
        intro u hu
        obtain ⟨k, hk⟩ : ∃ k, chunkIdW pr a u = .ok k := by
          have hci : ¬ (a.state = .corners ∧ a.inverted = true) := by
            rintro ⟨e1, e2⟩
            rw [(toChunksW_corners_inv pr a hv e1 e2).1 hne] at hc
            cases hc
          exact chunkIdW_total pr a hv hci u ((mem_coords a u).1 hu).2
        rw [cidOf_eq hk]
        exact (h2 k).2 ⟨u, hu, hk⟩
  have := partition_of_perm cs (coords a) hperm hnd
  exact ⟨hperm, this.1, this.2⟩

/-- chunks of a chunkable state are non-empty, keep the row-major order of `to_coords`, and are **exactly the classes
of equal chunk id**: two selected tiles share a chunk iff `_get_chunk_id` gives them the same id -/
theorem chunks_by_id (pr : PerRow) (a : Area) (hv : Valid a) (hs : 0 < a.size) (l : List Tile)
    (cs : List (List Tile)) (hl : toCoords a = .ok l) (hc : toChunksW pr a = .ok cs)
    (hst : ¬ (a.state = .full ∨ a.state = .edge)) :
    (∀ c, c ∈ cs → c ≠ [] ∧ c.Sublist l) ∧
    (∀ t₁ t₂, t₁ ∈ l → t₂ ∈ l →
      ((∃ c, c ∈ cs ∧ t₁ ∈ c ∧ t₂ ∈ c) ↔ ∃ k, chunkIdW pr a t₁ = .ok k ∧ chunkIdW pr a t₂ = .ok k)) := by
  rw [toCoords_ok a hv] at hl
  cases hl
  by_cases hne : coords a = []
  · constructor
    · intro c hcm
      exfalso
      by_cases hci : a.state = .corners ∧ a.inverted = true
      · rw [(toChunksW_corners_inv pr a hv hci.1 hci.2).2 hne] at hc
        cases hc; simp at hcm
      · obtain ⟨ks, _, h2, h3⟩ :=
          toChunksW_group pr a hv hs ⟨fun e => hst (Or.inl e), fun e => hst (Or.inr e)⟩ hci
        rw [h3] at hc
        cases hc
        obtain ⟨k, hk, rfl⟩ := List.mem_map.1 hcm
        obtain ⟨u, hu, _⟩ := (h2 k).1 hk
        simp [hne] at hu
    · intro t₁ t₂ h1; simp [hne] at h1
  · obtain ⟨ks, h1, h2, rfl⟩ := chunks_closed pr a hv hs cs hc hst hne
    have hci : ¬ (a.state = .corners ∧ a.inverted = true) := by
      rintro ⟨e1, e2⟩
      rw [(toChunksW_corners_inv pr a hv e1 e2).1 hne] at hc
      cases hc
    have hid : ∀ u, u ∈ coords a → chunkIdW pr a u = .ok (cidOf pr a u) := by
      intro u hu
      obtain ⟨k, hk⟩ := chunkIdW_total pr a hv hci u ((mem_coords a u).1 hu).2
      rw [hk, cidOf_eq hk]
    constructor
    · intro c hcm
      obtain ⟨k, hk, rfl⟩ := List.mem_map.1 hcm
      refine ⟨?_, List.filter_sublist⟩
      obtain ⟨u, hu, hku⟩ := (h2 k).1 hk
      intro he
      have : u ∈ (coords a).filter fun u => cidOf pr a u == k :=
        List.mem_filter.2 ⟨hu, by simp [cidOf_eq hku]⟩
      rw [he] at this
      simp at this
    · intro t₁ t₂ ht₁ ht₂
      constructor
      · rintro ⟨c, hcm, m1, m2⟩
        obtain ⟨k, _, rfl⟩ := List.mem_map.1 hcm
        have e1 := (List.mem_filter.1 m1).2
        have e2 := (List.mem_filter.1 m2).2
        simp only [beq_iff_eq] at e1 e2
        exact ⟨k, by rw [hid t₁ ht₁, e1], by rw [hid t₂ ht₂, e2]⟩
      · rintro ⟨k, k1, k2⟩
        refine ⟨(coords a).filter fun u => cidOf pr a u == k, List.mem_map.2 ⟨k, (h2 k).2 ⟨t₁, ht₁, k1⟩, rfl⟩, ?_, ?_⟩
        · exact List.mem_filter.2 ⟨ht₁, by simp [cidOf_eq k1]⟩
        · exact List.mem_filter.2 ⟨ht₂, by simp [cidOf_eq k2]⟩

/-! ### chunks never mix blocks, lines or corners -/

/-- GRID, not inverted: when the tiles-per-row value is at least the number of block columns, equal chunk ids mean
the same block column and block row -/
theorem chunks_separate_grid (pr : PerRow) (a : Area) (hv : Valid a) (hs : a.state = .grid)
    (hi : a.inverted = false) (hpr : blockCols a ≤ perRow pr a) (t₁ t₂ : Tile) (k : Int)
    (h₁ : within a t₁.x t₁.y = true) (h₂ : within a t₂.x t₂.y = true) (v₁ : InVis a t₁) (v₂ : InVis a t₂)
    (k₁ : chunkIdW pr a t₁ = .ok k) (k₂ : chunkIdW pr a t₂ = .ok k) :
    blockCol a t₁ = blockCol a t₂ ∧ blockRow a t₁ = blockRow a t₂ := by
  rw [chunkIdW_grid pr a hv t₁ hs hi h₁] at k₁
  rw [chunkIdW_grid pr a hv t₂ hs hi h₂] at k₂
  have e : blockCol a t₁ + blockRow a t₁ * perRow pr a = blockCol a t₂ + blockRow a t₂ * perRow pr a :=
    (Except.ok.inj k₁).trans (Except.ok.inj k₂).symm
  have hv' := hv
  unfold Valid at hv'
  simp only [hs] at hv'
  unfold InVis at v₁ v₂
  have b₁ : blockCol a t₁ < blockCols a := div_lt_ceil _ _ _ hv'.1 (by unfold Area.width; omega)
  have b₂ : blockCol a t₂ < blockCols a := div_lt_ceil _ _ _ hv'.1 (by unfold Area.width; omega)
  have n₁ : 0 ≤ blockCol a t₁ := Int.ediv_nonneg (by omega) (Int.le_of_lt hv'.1)
  have n₂ : 0 ≤ blockCol a t₂ := Int.ediv_nonneg (by omega) (Int.le_of_lt hv'.1)
  exact pair_injective _ _ _ _ _ n₁ (by omega) n₂ (by omega) e

/-- the same in the words of the property, for the chunks `to_chunks` returns: two tiles of one chunk lie in the same
block (`InBlock a i j`), given non-negative gaps (so that blocks do not overlap) -/
theorem chunks_separate_grid_blocks (pr : PerRow) (a : Area) (hv : Valid a) (hsz : 0 < a.size)
    (hs : a.state = .grid) (hi : a.inverted = false) (hg : 0 ≤ a.gapX ∧ 0 ≤ a.gapY)
    (hpr : blockCols a ≤ perRow pr a) (l : List Tile) (cs : List (List Tile)) (hl : toCoords a = .ok l)
    (hc : toChunksW pr a = .ok cs) (c : List Tile) (hcm : c ∈ cs) (t₁ t₂ : Tile) (m₁ : t₁ ∈ c) (m₂ : t₂ ∈ c)
    (i j i' j' : Nat) (b₁ : InBlock a i j t₁) (b₂ : InBlock a i' j' t₂) : i = i' ∧ j = j' := by
  have hst : ¬ (a.state = .full ∨ a.state = .edge) := by simp [hs]
  have hby := chunks_by_id pr a hv hsz l cs hl hc hst
  have s₁ := ((hby.1 c hcm).2).subset m₁
  have s₂ := ((hby.1 c hcm).2).subset m₂
  obtain ⟨k, k₁, k₂⟩ := (hby.2 t₁ t₂ s₁ s₂).1 ⟨c, hcm, m₁, m₂⟩
  rw [toCoords_ok a hv] at hl
  cases hl
  have w₁ := (mem_coords a t₁).1 s₁
  have w₂ := (mem_coords a t₂).1 s₂
  have := chunks_separate_grid pr a hv hs hi hpr t₁ t₂ k w₁.2 w₂.2 w₁.1 w₂.1 k₁ k₂
  have hv' := hv
  unfold Valid at hv'
  simp only [hs] at hv'
  unfold InBlock at b₁ b₂
  have hbx : a.blockX ≤ a.px := by unfold Area.px; omega
  have hby' : a.blockY ≤ a.py := by unfold Area.py; omega
  have c₁ : blockCol a t₁ = i := div_eq_of_period _ _ _ i hv'.1 hbx (by omega) (by omega)
  have c₂ : blockCol a t₂ = i' := div_eq_of_period _ _ _ i' hv'.1 hbx (by omega) (by omega)
  have r₁ : blockRow a t₁ = j := div_eq_of_period _ _ _ j hv'.2 hby' (by omega) (by omega)
  have r₂ : blockRow a t₂ = j' := div_eq_of_period _ _ _ j' hv'.2 hby' (by omega) (by omega)
  omega

/-- the repaired code (`PerRow.width`, fixes/F10-grid-chunk-width.diff) satisfies the hypothesis for **every**
rectangle: tiles-per-row is the number of block columns -/
theorem chunks_separate_grid_fixed (a : Area) : blockCols a ≤ perRow .width a := Int.le_refl _

/-- the pinned code (`PerRow.height`) satisfies it when the visible rectangle is not wider than high -/
theorem chunks_separate_grid_pinned (a : Area) (hp : 0 < a.px) (h : a.width ≤ a.height) :
    blockCols a ≤ perRow .height a := by
  simp only [blockCols, perRow, PerRow.dim]
  have := Int.ediv_le_ediv hp (by omega : -a.height ≤ -a.width)
  omega

/-- the 5×3 rectangle of the minimised finding F10: grid, block 1, gap 1 -/
def f10 : Area := { mk0 5 0 0 4 2 with state := .grid }

/-- **F10, pinned code**: on `f10` the tiles `(4,0)` (block column 2, row 0) and `(0,2)` (block column 0, row 1) get
the same chunk id and `to_chunks` puts them into one chunk – the hypothesis of `chunks_separate_grid` fails
(3 block columns, tiles-per-row 2) -/
theorem chunks_separate_grid_pinned_counter :
    Valid f10 ∧ chunkId f10 ⟨4, 0⟩ = .ok 2 ∧ chunkId f10 ⟨0, 2⟩ = .ok 2 ∧
    blockCol f10 ⟨4, 0⟩ ≠ blockCol f10 ⟨0, 2⟩ ∧
    toChunks f10 = .ok [[⟨0, 0⟩], [⟨2, 0⟩], [⟨4, 0⟩, ⟨0, 2⟩], [⟨2, 2⟩], [⟨4, 2⟩]] ∧
    ¬ (blockCols f10 ≤ perRow .height f10) := by decide

/-- LINES (inverted or not): the chunk id is the line index, so equal ids mean the same line period … -/
theorem chunks_separate_lines (pr : PerRow) (a : Area) (hv : Valid a) (hs : a.state = .lines) (t₁ t₂ : Tile)
    (k : Int) (h₁ : within a t₁.x t₁.y = true) (h₂ : within a t₂.x t₂.y = true)
    (k₁ : chunkIdW pr a t₁ = .ok k) (k₂ : chunkIdW pr a t₂ = .ok k) : lineIdx a t₁ = lineIdx a t₂ := by
  rw [chunkIdW_lines pr a hv t₁ hs h₁] at k₁
  rw [chunkIdW_lines pr a hv t₂ hs h₂] at k₂
  exact (Except.ok.inj k₁).trans (Except.ok.inj k₂).symm

/-- … and, in the words of the property: two tiles of one chunk of a non-inverted LINES selection lie on the same
line (`InLine a k`), given a non-negative gap -/
theorem chunks_separate_lines_lines (pr : PerRow) (a : Area) (hv : Valid a) (hsz : 0 < a.size)
    (hs : a.state = .lines) (hg : 0 ≤ a.gapX ∧ 0 ≤ a.gapY) (l : List Tile) (cs : List (List Tile))
    (hl : toCoords a = .ok l) (hc : toChunksW pr a = .ok cs) (c : List Tile) (hcm : c ∈ cs) (t₁ t₂ : Tile)
    (m₁ : t₁ ∈ c) (m₂ : t₂ ∈ c) (i i' : Nat) (b₁ : InLine a i t₁) (b₂ : InLine a i' t₂) : i = i' := by
  have hst : ¬ (a.state = .full ∨ a.state = .edge) := by simp [hs]
  have hby := chunks_by_id pr a hv hsz l cs hl hc hst
  have s₁ := ((hby.1 c hcm).2).subset m₁
  have s₂ := ((hby.1 c hcm).2).subset m₂
  obtain ⟨k, k₁, k₂⟩ := (hby.2 t₁ t₂ s₁ s₂).1 ⟨c, hcm, m₁, m₂⟩
  rw [toCoords_ok a hv] at hl
  cases hl
  have w₁ := (mem_coords a t₁).1 s₁
  have w₂ := (mem_coords a t₂).1 s₂
  have := chunks_separate_lines pr a hv hs t₁ t₂ k w₁.2 w₂.2 k₁ k₂
  have hv' := hv
  unfold Valid at hv'
  simp only [hs] at hv'
  unfold InLine at b₁ b₂
  unfold lineIdx at this
  cases hax : a.axis <;> simp only [hax] at b₁ b₂ this
  · have hw : a.lineY ≤ a.lp := by simp only [Area.lp, hax]; omega
    have c₁ := div_eq_of_period (t₁.y - a.y1) a.lp a.lineY i hv' hw (by omega) (by omega)
    have c₂ := div_eq_of_period (t₂.y - a.y1) a.lp a.lineY i' hv' hw (by omega) (by omega)
    omega
  · have hw : a.lineX ≤ a.lp := by simp only [Area.lp, hax]; omega
    have c₁ := div_eq_of_period (t₁.x - a.x1) a.lp a.lineX i hv' hw (by omega) (by omega)
    have c₂ := div_eq_of_period (t₂.x - a.x1) a.lp a.lineX i' hv' hw (by omega) (by omega)
    omega

/-- CORNERS, not inverted, corner rectangles not overlapping: equal chunk ids mean the same corner rectangle (and the
id is that corner's number) -/
theorem chunks_separate_corners (pr : PerRow) (a : Area) (hv : Valid a) (hs : a.state = .corners)
    (hi : a.inverted = false) (hd : CornersDisjoint a) (t₁ t₂ : Tile) (k : Int)
    (h₁ : within a t₁.x t₁.y = true) (h₂ : within a t₂.x t₂.y = true)
    (k₁ : chunkIdW pr a t₁ = .ok k) (k₂ : chunkIdW pr a t₂ = .ok k) :
    ∀ c, InCorner a c t₁ ↔ InCorner a c t₂ := by
  obtain ⟨j₁, e₁, c₁⟩ := chunkIdW_corners pr a hv t₁ hs hi h₁
  obtain ⟨j₂, e₂, c₂⟩ := chunkIdW_corners pr a hv t₂ hs hi h₂
  rw [e₁] at k₁; rw [e₂] at k₂
  cases k₁; cases k₂
  have uniq : ∀ (t : Tile) (c c' : Int), InCorner a c t → InCorner a c' t → c = c' := by
    intro t c c' hc hc'
    unfold CornersDisjoint Area.width Area.height at hd
    unfold InCorner at hc hc'
    omega
  intro c
  constructor
  · intro hc; rw [uniq t₁ c k hc c₁]; exact c₂
  · intro hc; rw [uniq t₂ c k hc c₂]; exact c₁

/-- the same for the chunks `to_chunks` returns -/
theorem chunks_separate_corners_chunks (pr : PerRow) (a : Area) (hv : Valid a) (hsz : 0 < a.size)
    (hs : a.state = .corners) (hi : a.inverted = false) (hd : CornersDisjoint a) (l : List Tile)
    (cs : List (List Tile)) (hl : toCoords a = .ok l) (hc : toChunksW pr a = .ok cs) (c : List Tile) (hcm : c ∈ cs)
    (t₁ t₂ : Tile) (m₁ : t₁ ∈ c) (m₂ : t₂ ∈ c) : ∀ n, InCorner a n t₁ ↔ InCorner a n t₂ := by
  have hst : ¬ (a.state = .full ∨ a.state = .edge) := by simp [hs]
  have hby := chunks_by_id pr a hv hsz l cs hl hc hst
  have s₁ := ((hby.1 c hcm).2).subset m₁
  have s₂ := ((hby.1 c hcm).2).subset m₂
  obtain ⟨k, k₁, k₂⟩ := (hby.2 t₁ t₂ s₁ s₂).1 ⟨c, hcm, m₁, m₂⟩
  rw [toCoords_ok a hv] at hl
  cases hl
  exact chunks_separate_corners pr a hv hs hi hd t₁ t₂ k ((mem_coords a t₁).1 s₁).2 ((mem_coords a t₂).1 s₂).2 k₁ k₂

/-! ### construction: `validate_coords` orders the corners -/

/-- whatever corners are given, the rectangle `validate_coords` returns is ordered -/
theorem validateCoords_ordered (x1 y1 x2 y2 : Option Int) (r : Int × Int × Int × Int)
    (h : validateCoords x1 y1 x2 y2 = .ok r) : r.1 ≤ r.2.2.1 ∧ r.2.1 ≤ r.2.2.2 := by
  simp only [validateCoords] at h
  generalize (if (valueIsValid x1 && !valueIsValid x2) = true then x1 else x2) = x2' at h
  generalize (if (valueIsValid y1 && !valueIsValid y2) = true then y1 else y2) = y2' at h
  cases x1 <;> cases y1 <;> cases x2' <;> cases y2' <;> simp only [reduceCtorEq] at h
  rename_i a b c d
  have hr := Except.ok.inj h
  subst hr
  by_cases h1 : a > c <;> by_cases h2 : b > d <;> simp [h1, h2] <;> omega

/-! ### non-vacuity: the hypotheses are met by ordinary configurations and the numbers are the expected ones -/

/-- 8×8 map, rectangle (1,1)–(9,5) reaching outside, grid block 2 gap 1 -/
def exGrid : Area := { mk0 8 1 1 9 5 with state := .grid, blockX := 2, blockY := 2 }

example : Valid exGrid ∧ 0 < exGrid.size ∧ exGrid.inverted = false ∧
    toCoords exGrid = .ok [⟨1,1⟩, ⟨2,1⟩, ⟨4,1⟩, ⟨5,1⟩, ⟨7,1⟩, ⟨1,2⟩, ⟨2,2⟩, ⟨4,2⟩, ⟨5,2⟩, ⟨7,2⟩,
                           ⟨1,4⟩, ⟨2,4⟩, ⟨4,4⟩, ⟨5,4⟩, ⟨7,4⟩, ⟨1,5⟩, ⟨2,5⟩, ⟨4,5⟩, ⟨5,5⟩, ⟨7,5⟩] := by decide

/-- the visible rectangle of `exGrid` is 7 wide, 5 high: 3 block columns, pinned tiles-per-row 2 (F10 again), repaired 3 -/
example : exGrid.width = 7 ∧ exGrid.height = 5 ∧ blockCols exGrid = 3 ∧ perRow .height exGrid = 2 ∧
    perRow .width exGrid = 3 := by decide

example : toChunksW .width exGrid = .ok [[⟨1,1⟩, ⟨2,1⟩, ⟨1,2⟩, ⟨2,2⟩], [⟨4,1⟩, ⟨5,1⟩, ⟨4,2⟩, ⟨5,2⟩], [⟨7,1⟩, ⟨7,2⟩],
    [⟨1,4⟩, ⟨2,4⟩, ⟨1,5⟩, ⟨2,5⟩], [⟨4,4⟩, ⟨5,4⟩, ⟨4,5⟩, ⟨5,5⟩], [⟨7,4⟩, ⟨7,5⟩]] := by decide

/-- the hypothesis set of `chunks_separate_grid(_blocks)` on `exGrid` with the repaired tiles-per-row: selected tiles of
the visible rectangle with a common chunk id, lying in a common block; tiles of different blocks get different ids -/
example : within exGrid 1 1 = true ∧ within exGrid 2 2 = true ∧ InVis exGrid ⟨1, 1⟩ ∧ InVis exGrid ⟨2, 2⟩ ∧
    blockCols exGrid ≤ perRow .width exGrid ∧ 0 ≤ exGrid.gapX ∧ 0 ≤ exGrid.gapY ∧
    chunkIdW .width exGrid ⟨1, 1⟩ = .ok 0 ∧ chunkIdW .width exGrid ⟨2, 2⟩ = .ok 0 ∧
    InBlock exGrid 0 0 ⟨1, 1⟩ ∧ InBlock exGrid 0 0 ⟨2, 2⟩ ∧ InBlock exGrid 2 1 ⟨7, 5⟩ ∧
    chunkIdW .width exGrid ⟨7, 5⟩ = .ok 5 ∧ chunkIdW .width exGrid ⟨1, 4⟩ = .ok 3 := by decide

/-- the clauses of `toCoords_spec` on concrete tiles: (3,1) is in the rectangle and on the map but in a gap; (8,1) is
in the rectangle but off the map (`is_within_selection` says `True` for it – it only tests the raw rectangle – which
is why `isWithin_agrees` speaks about the tiles of the map); (7,1) is selected -/
example : InRect exGrid ⟨3, 1⟩ ∧ InMap exGrid ⟨3, 1⟩ ∧ patB exGrid 3 1 = false ∧
    InRect exGrid ⟨8, 1⟩ ∧ ¬ InMap exGrid ⟨8, 1⟩ ∧ isWithin exGrid 8 1 = .ok true ∧
    InRect exGrid ⟨7, 1⟩ ∧ InMap exGrid ⟨7, 1⟩ ∧ InBlock exGrid 2 0 ⟨7, 1⟩ ∧ isWithin exGrid 7 1 = .ok true := by decide

/-- a tall rectangle: the pinned code meets the hypothesis of `chunks_separate_grid` -/
def exTall : Area := { mk0 8 2 0 4 7 with state := .grid }
example : Valid exTall ∧ exTall.width ≤ exTall.height ∧ 0 < exTall.px ∧ blockCols exTall ≤ perRow .height exTall := by
  decide

/-- lines along x, width 1, gap 2, inverted; corners 2×1 on a 6×4 rectangle (disjoint) -/
def exLines : Area := { mk0 6 0 0 5 5 with state := .lines, axis := .x, gapY := 2, inverted := true }
def exCorners : Area := { mk0 9 1 2 6 5 with state := .corners, cornerX := 2 }

example : Valid exLines ∧ toChunks exLines = .ok [[⟨0,1⟩, ⟨1,1⟩, ⟨2,1⟩, ⟨3,1⟩, ⟨4,1⟩, ⟨5,1⟩, ⟨0,2⟩, ⟨1,2⟩, ⟨2,2⟩, ⟨3,2⟩, ⟨4,2⟩, ⟨5,2⟩],
    [⟨0,4⟩, ⟨1,4⟩, ⟨2,4⟩, ⟨3,4⟩, ⟨4,4⟩, ⟨5,4⟩, ⟨0,5⟩, ⟨1,5⟩, ⟨2,5⟩, ⟨3,5⟩, ⟨4,5⟩, ⟨5,5⟩]] := by decide

example : within exLines 0 1 = true ∧ within exLines 5 2 = true ∧ chunkId exLines ⟨0, 1⟩ = .ok 0 ∧
    chunkId exLines ⟨5, 2⟩ = .ok 0 ∧ lineIdx exLines ⟨0, 1⟩ = 0 ∧ chunkId exLines ⟨3, 4⟩ = .ok 1 := by decide

example : within exCorners 5 2 = true ∧ within exCorners 6 2 = true ∧ chunkId exCorners ⟨5, 2⟩ = .ok 1 ∧
    chunkId exCorners ⟨6, 2⟩ = .ok 1 ∧ InCorner exCorners 1 ⟨5, 2⟩ ∧ InCorner exCorners 1 ⟨6, 2⟩ ∧
    ¬ InCorner exCorners 0 ⟨5, 2⟩ := by decide

example : Valid exCorners ∧ CornersDisjoint exCorners ∧
    toChunks exCorners = .ok [[⟨1,2⟩, ⟨2,2⟩], [⟨5,2⟩, ⟨6,2⟩], [⟨1,5⟩, ⟨2,5⟩], [⟨5,5⟩, ⟨6,5⟩]] := by decide

/-- inverted corners raise, as documented -/
example : toChunks { exCorners with inverted := true } = .error .valueError := by decide

/-- an invalid configuration raises in the model as in the code: default axis `""`, zero period -/
example : toCoords { exLines with axis := .other } = .error .valueError ∧
    toCoords { exGrid with blockX := 0, gapX := 0 } = .error .zeroDivision := by decide

example : validateCoords (some 7) (some 2) (some 3) none = .ok (3, 2, 7, 2) ∧
    selectCoords 10 1 1 (some (-1)) (some (-2)) = .ok (1, 1, 9, 8) ∧
    ctorCoords 9 (some (-1)) (some (-1)) (some 3) (some 3) = .ok (4, 4, 4, 4) := by decide

end Aoe.Props.C14
