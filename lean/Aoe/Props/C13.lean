import Aoe.Model.Save
import Aoe.Lemmas.Save
/-!
# C13 – saving never destroys existing files unexpectedly

Property theorems about the save pipeline model `Aoe.Save` (M10).  `save c fault fs` is one
`scenario.write_to_file(c.dest, …)` call on the filesystem `fs`, with the step `fault` (if any) raising.
All theorems hold for **every** number of callbacks / commit events / serialised sections (every pipeline
length), every fault index, every filesystem and every byte content.

The source-path guard has a polarity parameter (`Guard.asPinned` = the code on the pinned tree, `Guard.fixed` =
the one-token repair of defect F1).  The two clauses of the property that speak about the guard
(`refused_by_default`, `allowed_when_enabled`) are proved for `fixed` and **refuted** for `asPinned` on concrete
witnesses (`…_counter`); every other theorem holds for both polarities.
-/
namespace Aoe.Props.C13
open Aoe.Save

/-- **write_is_last**: the pipeline is a list of steps that cannot touch any file, followed by exactly one
`openWrite`; nothing fallible comes after the destination is opened. -/
theorem write_is_last (c : Cfg) :
    ∃ pre, pipeline c = pre ++ [Step.openWrite] ∧ (∀ s ∈ pre, s.touchesFs = false) ∧
      fallibleAfterOpen (pipeline c) = 0 := by
  refine ⟨prefixSteps c, rfl, prefixSteps_pure c, ?_⟩
  have key : ∀ (pre : List Step), (∀ s ∈ pre, s.touchesFs = false) →
      fallibleAfterOpen (pre ++ [Step.openWrite]) = 0 := by
    intro pre
    induction pre with
    | nil => intro _; rfl
    | cons s rest ih =>
      intro h
      simp only [List.cons_append, fallibleAfterOpen, h s (List.mem_cons_self ..), Bool.false_eq_true, if_false]
      exact ih (fun s hs => h s (List.mem_cons_of_mem _ hs))
  exact key _ (prefixSteps_pure c)

/-- length of the pipeline (for stating "every fault index") -/
theorem pipeline_length (c : Cfg) :
    (pipeline c).length =
      (if c.skipValidation then 0 else 1) + c.callbacks + 2
        + (if c.skipReconstruction then 0 else c.commits) + (c.sections.length + 1) + 2 := by
  unfold pipeline prefixSteps
  cases c.skipValidation <;> cases c.skipReconstruction <;> simp <;> omega

/-- **failure ⇒ nothing on disk changed** (both guard polarities, any fault schedule): if `write_to_file` raises –
refused by validation, a step failing, the open itself failing – the *whole* filesystem is as before: an existing
destination keeps its content, an absent one stays absent, no other file appears. -/
theorem error_keeps_fs (c : Cfg) (fault : Option Nat) (fs : FS) (h : (save c fault fs).err ≠ none) :
    (save c fault fs).fs = fs := by
  simp only [save, runSteps, pipeline] at h ⊢
  have hpure : (exec c fault 0 (prefixSteps c) (St.init fs)).2.fs = fs :=
    exec_fs_of_pure c fault (prefixSteps c) 0 (St.init fs) (prefixSteps_pure c)
  rw [exec_append] at h ⊢
  cases hpre : exec c fault 0 (prefixSteps c) (St.init fs) with
  | mk e st' =>
    rw [hpre] at hpure h
    cases e with
    | some e => exact hpure
    | none =>
      simp only [exec] at h ⊢
      by_cases hf : fault = some (0 + (prefixSteps c).length)
      · simp only [hf, if_true]; exact hpure
      · simp only [hf, if_false] at h ⊢
        cases hok : stepSem c Step.openWrite st' with
        | error e => exact hpure
        | ok st'' => simp [hok] at h

/-- **fault_before_write_keeps_fs**: a failure injected at *any* step before the final write – for every
pipeline length and every index – makes the save fail and leaves the whole filesystem unchanged (no partial
file, an existing destination intact).  The same holds for the last index (the `open` itself failing). -/
theorem fault_before_write_keeps_fs (c : Cfg) (fs : FS) (k : Nat) (hk : k < (pipeline c).length) :
    (save c (some k) fs).err ≠ none ∧ (save c (some k) fs).fs = fs := by
  have herr : (save c (some k) fs).err ≠ none := by
    have := exec_fault_hit c k (pipeline c) 0 (St.init fs) (Nat.zero_le _) (by omega)
    simp only [save, runSteps]
    intro h
    rw [h] at this
    simp at this
  exact ⟨herr, error_keeps_fs c (some k) fs herr⟩

/-- the engineering rule behind the two theorems above, for **arbitrary** step lists: as long as every step before
position `k` cannot touch a file, a failure at `k` leaves the filesystem unchanged – whatever comes later -/
theorem pure_prefix_fault_keeps_fs (c : Cfg) (pre rest : List Step) (hpre : ∀ s ∈ pre, s.touchesFs = false)
    (k : Nat) (hk : k < pre.length) (fs : FS) :
    (runSteps c (pre ++ rest) (some k) fs).err ≠ none ∧ (runSteps c (pre ++ rest) (some k) fs).fs = fs := by
  have hit := exec_fault_hit c k pre 0 (St.init fs) (Nat.zero_le _) (by omega)
  have hfs : (exec c (some k) 0 pre (St.init fs)).2.fs = fs := exec_fs_of_pure c (some k) pre 0 (St.init fs) hpre
  simp only [runSteps]
  rw [exec_append]
  cases hpre' : exec c (some k) 0 pre (St.init fs) with
  | mk e st' =>
    rw [hpre'] at hit hfs
    cases e with
    | none => simp at hit
    | some e => exact ⟨by simp, hfs⟩

/-- a save succeeds exactly when validation lets it through and no step inside the pipeline fails -/
theorem ok_iff (c : Cfg) (fault : Option Nat) (fs : FS) :
    (save c fault fs).err = none ↔ (c.passes = true ∧ ∀ k, fault = some k → (pipeline c).length ≤ k) := by
  constructor
  · intro h
    have hf : ∀ k, fault = some k → (pipeline c).length ≤ k := by
      intro k hk
      refine Nat.le_of_not_lt (fun hlt => ?_)
      subst hk
      exact (fault_before_write_keeps_fs c fs k hlt).1 h
    refine ⟨?_, hf⟩
    cases hp : c.passes with
    | true => rfl
    | false =>
      exfalso
      have hsv : c.skipValidation = false := by
        cases h' : c.skipValidation <;> simp [Cfg.passes, h'] at hp ⊢
      have hv : ∃ e, validate c = .error e := by
        cases hv : validate c with
        | error e => exact ⟨e, rfl⟩
        | ok u =>
          have := (validate_ok_iff c).1 hv
          simp [Cfg.passes, hsv, this.1, this.2] at hp
      obtain ⟨e, hv⟩ := hv
      obtain ⟨e', he', _⟩ := save_refused c fault fs hsv e hv
      simp [save, runSteps, he'] at h
  · intro ⟨hp, hf⟩
    have := exec_no_fault c fault (pipeline c) 0 (St.init fs)
      (fun j _ h2 hj => by have := hf j hj; omega)
    simp [save, runSteps, this, save_unfaulted c fs hp]

/-- **success writes exactly the destination**: when the save returns normally the filesystem differs from the
initial one in the destination only, and the destination holds the complete `header ++ deflate(sections)` – never
a partial result. -/
theorem success_writes_exactly_dest (c : Cfg) (fault : Option Nat) (fs : FS) (h : (save c fault fs).err = none) :
    (save c fault fs).fs = fs.put c.dest c.payload := by
  obtain ⟨hp, hf⟩ := (ok_iff c fault fs).1 h
  have := exec_no_fault c fault (pipeline c) 0 (St.init fs) (fun j _ h2 hj => by have := hf j hj; omega)
  simp [save, runSteps, this, save_unfaulted c fs hp]

theorem success_dest_content (c : Cfg) (fault : Option Nat) (fs : FS) (h : (save c fault fs).err = none) :
    (save c fault fs).fs c.dest = some (c.header ++ c.deflate c.sections.flatten) := by
  rw [success_writes_exactly_dest c fault fs h]; simp [FS.put, Cfg.payload, payload]

theorem success_other_files_untouched (c : Cfg) (fault : Option Nat) (fs : FS) (p : Path) (hp : p ≠ c.dest) :
    (save c fault fs).fs p = fs p := by
  cases h : (save c fault fs).err with
  | none => rw [success_writes_exactly_dest c fault fs h]; simp [FS.put, hp]
  | some e => rw [error_keeps_fs c fault fs (by rw [h]; simp)]

/-- at every moment the destination holds either its previous content or the complete new file -/
theorem no_partial_file (c : Cfg) (fault : Option Nat) (fs : FS) :
    (save c fault fs).fs c.dest = fs c.dest ∨ (save c fault fs).fs c.dest = some c.payload := by
  cases h : (save c fault fs).err with
  | none => right; rw [success_writes_exactly_dest c fault fs h]; simp [FS.put]
  | some e => left; rw [error_keeps_fs c fault fs (by rw [h]; simp)]

/-- **refused_by_default** (fixed guard polarity): with `ALLOW_OVERWRITING_SOURCE = False` and validation not
skipped, saving to the path the scenario was loaded from raises – whatever else is scheduled – and nothing on disk
changes; without another fault the error is the overwrite refusal. -/
theorem refused_by_default (c : Cfg) (fault : Option Nat) (fs : FS)
    (hg : c.guard = .fixed) (ha : c.allow = false) (hs : c.source = some c.dest) (hv : c.skipValidation = false) :
    (save c fault fs).err ≠ none ∧ (save c fault fs).fs = fs ∧
      (fault ≠ some 0 → (save c fault fs).err = some .overwriteSource) := by
  have hval : validate c = .error .overwriteSource := by
    simp [validate, hg, ha, Cfg.same, hs, Guard.refuses]
  obtain ⟨e', he', hee⟩ := save_refused c fault fs hv _ hval
  have herr : (save c fault fs).err = some e' := by simp [save, runSteps, he']
  refine ⟨by rw [herr]; simp, error_keeps_fs c fault fs (by rw [herr]; simp), fun hf => ?_⟩
  rw [herr, hee hf]

/-- **allowed_when_enabled** (fixed guard polarity): with `ALLOW_OVERWRITING_SOURCE = True` the unfaulted save
succeeds for every destination – the source path included – and writes exactly the destination. -/
theorem allowed_when_enabled (c : Cfg) (fs : FS)
    (hg : c.guard = .fixed) (ha : c.allow = true) (hvar : c.variantOk = true) :
    (save c none fs).err = none ∧ (save c none fs).fs = fs.put c.dest c.payload := by
  have hp : c.passes = true := by simp [Cfg.passes, hg, ha, hvar, Guard.refuses]
  have h : (save c none fs).err = none := (ok_iff c none fs).2 ⟨hp, fun k hk => by simp at hk⟩
  exact ⟨h, success_writes_exactly_dest c none fs h⟩

/-- with the fixed polarity the save is refused **only** in the default-settings / same-path situation
(or by the variant check): saving elsewhere is never blocked by the guard -/
theorem fixed_guard_refuses_iff (c : Cfg) (hg : c.guard = .fixed) :
    validate c = .error .overwriteSource ↔ (c.allow = false ∧ c.source = some c.dest) := by
  simp only [validate, hg, Guard.refuses, Cfg.same]
  cases c.allow <;> cases hs : (c.source == some c.dest) <;> cases c.variantOk <;> simp_all

/-- `skip_validation=True` removes the guard for both polarities -/
theorem skip_validation_saves (c : Cfg) (fs : FS) (hv : c.skipValidation = true) :
    (save c none fs).err = none ∧ (save c none fs).fs = fs.put c.dest c.payload := by
  have hp : c.passes = true := by simp [Cfg.passes, hv]
  have h : (save c none fs).err = none := (ok_iff c none fs).2 ⟨hp, fun k hk => by simp at hk⟩
  exact ⟨h, success_writes_exactly_dest c none fs h⟩

/-! ### the pinned tree (defect F1): the guard as written refutes both guard clauses -/

/-- a small scenario: one callback, two commits, header and two sections; loaded from path 1 -/
def demo (g : Guard) (allow : Bool) (dest : Path) : Cfg :=
  { guard := g, allow := allow, skipValidation := false, skipReconstruction := false, source := some 1,
    dest := dest, variantOk := true, callbacks := 1, commits := 2, header := [1, 2],
    sections := [[3], [4, 5]], deflate := fun b => b.reverse }

/-- path 1 holds the source file, path 2 another file -/
def demoFs : FS := fun p => if p = 1 then some [9] else if p = 2 then some [8] else none

/-- **refused_by_default_counter**: on the pinned polarity, default settings, destination = source: the save
succeeds and the source file is overwritten. -/
theorem refused_by_default_counter :
    (save (demo .asPinned false 1) none demoFs).err = none ∧
    (save (demo .asPinned false 1) none demoFs).fs 1 = some [1, 2, 5, 4, 3] ∧ demoFs 1 = some [9] := by
  decide

/-- **allowed_when_enabled_counter**: on the pinned polarity, with the overwrite setting enabled, saving to the
source path is refused. -/
theorem allowed_when_enabled_counter :
    (save (demo .asPinned true 1) none demoFs).err = some .overwriteSource := by
  decide

/-- general form of the counter-example: on the pinned polarity the refusal happens exactly when overwriting is
*allowed* -/
theorem pinned_guard_refuses_iff (c : Cfg) (hg : c.guard = .asPinned) :
    validate c = .error .overwriteSource ↔ (c.allow = true ∧ c.source = some c.dest) := by
  simp only [validate, hg, Guard.refuses, Cfg.same]
  cases c.allow <;> cases hs : (c.source == some c.dest) <;> cases c.variantOk <;> simp_all

/-! ### non-vacuity -/

-- the hypotheses of `refused_by_default` are met by `demo .fixed false 1`, and the conclusion is what one expects
example : (demo .fixed false 1).guard = .fixed ∧ (demo .fixed false 1).allow = false ∧
    (demo .fixed false 1).source = some (demo .fixed false 1).dest ∧ (demo .fixed false 1).skipValidation = false := by
  decide
example : (save (demo .fixed false 1) none demoFs).err = some .overwriteSource ∧
    (save (demo .fixed false 1) none demoFs).fs 1 = some [9] := by decide
-- `allowed_when_enabled`: the source is overwritten with the complete payload, the other file is untouched
example : (save (demo .fixed true 1) none demoFs).err = none ∧
    (save (demo .fixed true 1) none demoFs).fs 1 = some [1, 2, 5, 4, 3] ∧
    (save (demo .fixed true 1) none demoFs).fs 2 = some [8] := by decide
-- saving elsewhere: pipeline of 11 steps; a fault at step 7 (first section after the header) fails and keeps the old destination
example : (pipeline (demo .fixed false 2)).length = 11 := by decide
example : (save (demo .fixed false 2) (some 7) demoFs).err = some (.injected 7) ∧
    (save (demo .fixed false 2) (some 7) demoFs).fs 2 = some [8] := by decide
example : (save (demo .fixed false 2) none demoFs).fs 2 = some [1, 2, 5, 4, 3] ∧
    (save (demo .fixed false 3) none demoFs).fs 3 = some [1, 2, 5, 4, 3] := by decide
-- a fault scheduled beyond the pipeline is no fault
example : (save (demo .fixed false 2) (some 11) demoFs).err = none ∧
    (save (demo .fixed false 2) (some 10) demoFs).err = some (.injected 10) := by decide

/-- the theorems are **not** true of an arbitrary ordering: when the destination is opened before serialising
(`earlyOpenPipeline`), a fault in a later section leaves an existing destination truncated and creates an empty
file where there was none -/
theorem early_open_destroys :
    (runSteps (demo .fixed false 2) (earlyOpenPipeline (demo .fixed false 2)) (some 7) demoFs).err = some (.injected 7) ∧
    (runSteps (demo .fixed false 2) (earlyOpenPipeline (demo .fixed false 2)) (some 7) demoFs).fs 2 = some [] ∧
    (runSteps (demo .fixed false 3) (earlyOpenPipeline (demo .fixed false 3)) (some 7) demoFs).fs 3 = some [] ∧
    fallibleAfterOpen (earlyOpenPipeline (demo .fixed false 2)) = 5 := by
  decide

end Aoe.Props.C13
