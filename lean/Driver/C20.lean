import Driver.MapCommon
/-!
Driver for C20 (elevation).  Commands beyond `Driver/MapCommon.lean` (→ answers):
  setelev <e> <x1> <y1> <x2|None> <y2|None>     → ok <elevations, row-major> | error | error-fuel
                                                   (`set_elevation`, operational model, fuel = size² + 1)
  pyramid <size> <b> <e> <x1> <y1> <x2> <y2>    → <elevations, row-major>     (closed form on a flat map)
-/
open Driver Aoe.Map MapDrv

def step (s : St) (line : String) : St × String :=
  match stepCommon s line with
  | some r => r
  | none =>
  match words line with
  | ["setelev", e, a, b, c, d] =>
    match parseInt? e, parseInt? a, parseInt? b, parseOptInt? c, parseOptInt? d with
    | some e, some a, some b, some c, some d =>
      match setElevation s.fixSingle (elevFuel s.m) s.m e a b c d with
      | .ok m' => ({ s with m := m' }, "ok " ++ showElevs m')
      | .error .fuel => (s, "error-fuel")
      | .error _ => (s, "error")
    | _, _, _, _, _ => (s, "bad-op")
  | ["pyramid", n, b, e, x1, y1, x2, y2] =>
    match n.toNat?, parseInt? b, parseInt? e, parseInt? x1, parseInt? y1, parseInt? x2, parseInt? y2 with
    | some n, some b, some e, some x1, some y1, some x2, some y2 =>
      (s, showIntList (pyramid n b e x1 y1 x2 y2))
    | _, _, _, _, _, _, _ => (s, "bad-op")
  | _ => (s, "bad-op")

def main : IO Unit := loop step init
