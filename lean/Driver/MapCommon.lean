import Driver.Common
import Aoe.Model.Map
/-!
Command handling shared by the C11 and C20 drivers (both run the model `Aoe.Model.Map`).

State: the map model and the two repair switches (`mode`).  Common commands (→ answers):
  mode <fixIdx 0|1> <fixSingle 0|1>   → ok
  terrain <n> <base>                  → `mm.terrain = [n tiles]`, tile j has terrain_id=(base+j)%97,
                                        elevation=(base+j)%5, layer=base+j        → ok <dump> | error
  flat <size> <b>                     → terrain of size² fresh tiles with elevation b → ok <dump> | error
  size <n>                            → `mm.map_size = n`                           → ok <dump> | error
  reverse                             → `mm.terrain = list(reversed(mm.terrain))`     → ok <dump> | error
  rotate <k>                          → `mm.terrain = mm.terrain[k:] + mm.terrain[:k]` → ok <dump> | error
  prefix <n>                          → `mm.terrain = mm.terrain[:n]` (same objects, same list positions) → ok <dump> | error
  extend <n> <base>                   → `mm.terrain = mm.terrain + n new tiles`        → ok <dump> | error
  setitem <k> <base>                  → `mm.terrain[k] = <new tile>`                   → ok <dump> | error
  popinsert                           → `mm.terrain.insert(0, mm.terrain.pop(-1))`     → ok <dump> | error
  elevs <e0,e1,…>                     → tile k gets elevation e_k (length must match) → ok | error
  dump                                → <dump>
  push / pop                          → save / restore the manager state (depth-first exploration of histories) → ok
<dump> = size=<s> len=<l> tiles=<tid:elev:layer:i:x:y,…>   (x:y = tile.xy or E:E when it raises)
         for more than 64 tiles `hash=<h>` replaces `tiles=…` (polynomial hash of the same integers).
-/
open Driver Aoe.Map

namespace MapDrv

structure St where
  m : Map
  fixIdx : Bool
  fixSingle : Bool
  stack : List Map := []

def init : St := { m := { size := 0, tiles := [] }, fixIdx := false, fixSingle := false }

def hashP : Nat := 2305843009213693951   -- 2^61 - 1

def hashStep (h : Nat) (v : Int) : Nat := (h * 1000003 + (v % (hashP : Int)).toNat + 7) % hashP

def tileInts (m : Map) (t : Tile) : List Int :=
  match tileXY m t with
  | .ok (x, y) => [t.terrainId, t.elevation, t.layer, t.index, x, y]
  | .error _ => [t.terrainId, t.elevation, t.layer, t.index, -7, -7]

def showTile (m : Map) (t : Tile) : String :=
  let xy := match tileXY m t with
    | .ok (x, y) => s!"{x}:{y}"
    | .error _ => "E:E"
  s!"{t.terrainId}:{t.elevation}:{t.layer}:{t.index}:{xy}"

def dump (m : Map) : String :=
  let head := s!"size={m.size} len={m.tiles.length}"
  if m.tiles.length > 64 then
    let h := m.tiles.foldl (fun h t => (tileInts m t).foldl hashStep h) 0
    s!"{head} hash={h}"
  else
    head ++ " tiles=" ++ (if m.tiles.isEmpty then "-" else ",".intercalate (m.tiles.map (showTile m)))

def mkTile (c : Nat) : Tile :=
  { terrainId := ((c % 97 : Nat) : Int), elevation := ((c % 5 : Nat) : Int), layer := (c : Int), index := -1 }

def showElevs (m : Map) : String := showIntList (m.tiles.map (·.elevation))

def applyMap (s : St) (r : Except Err Map) : St × String :=
  match r with
  | .ok m' => ({ s with m := m' }, "ok " ++ dump m')
  | .error .fuel => (s, "error-fuel")
  | .error _ => (s, "error")

def setElevs : List Tile → List Int → List Tile
  | t :: ts, e :: es => { t with elevation := e } :: setElevs ts es
  | _, _ => []

/-- the common commands; `none` when the line is not one of them -/
def stepCommon (s : St) (line : String) : Option (St × String) :=
  match words line with
  | ["mode", a, b] =>
    match a.toNat?, b.toNat? with
    | some a, some b => some ({ s with fixIdx := a != 0, fixSingle := b != 0 }, "ok")
    | _, _ => some (s, "bad-op")
  | ["terrain", n, base] =>
    match n.toNat?, base.toNat? with
    | some n, some base => some (applyMap s (setTerrain s.m ((List.range n).map (fun j => mkTile (base + j)))))
    | _, _ => some (s, "bad-op")
  | ["flat", n, b] =>
    match n.toNat?, parseInt? b with
    | some n, some b =>
      some (applyMap s (setTerrain s.m (List.replicate (n * n) { Tile.fresh with elevation := b })))
    | _, _ => some (s, "bad-op")
  | ["size", n] =>
    match n.toNat? with
    | some n => some (applyMap s (setSize s.m n))
    | none => some (s, "bad-op")
  | ["prefix", n] =>
    match n.toNat? with
    | some n => some (applyMap s (setTerrain s.m (s.m.tiles.take n)))
    | none => some (s, "bad-op")
  | ["extend", n, base] =>
    match n.toNat?, base.toNat? with
    | some n, some base => some (applyMap s (setTerrain s.m (s.m.tiles ++ (List.range n).map (fun j => mkTile (base + j)))))
    | _, _ => some (s, "bad-op")
  | ["setitem", k, base] =>
    -- `mm.terrain[k] = TerrainTile(...)`: a single-object edit of the list; the whole list is re-stamped afterwards
    match k.toNat?, base.toNat? with
    | some k, some base =>
      if k < s.m.tiles.length then some (applyMap s (setTerrain s.m (s.m.tiles.set k (mkTile base)))) else some (s, "error")
    | _, _ => some (s, "bad-op")
  | ["popinsert"] =>
    -- `mm.terrain.insert(0, mm.terrain.pop(-1))`: two single-object edits, the list has its old length again
    match s.m.tiles.getLast? with
    | some t => some (applyMap s (setTerrain s.m (t :: s.m.tiles.dropLast)))
    | none => some (s, "error")
  | ["reverse"] => some (applyMap s (setTerrain s.m s.m.tiles.reverse))
  | ["rotate", k] =>
    match k.toNat? with
    | some k => some (applyMap s (setTerrain s.m (s.m.tiles.drop k ++ s.m.tiles.take k)))
    | none => some (s, "bad-op")
  | ["elevs", l] =>
    match parseIntList? l with
    | some es =>
      if es.length = s.m.tiles.length then some ({ s with m := { s.m with tiles := setElevs s.m.tiles es } }, "ok")
      else some (s, "error")
    | none => some (s, "bad-op")
  | ["dump"] => some (s, dump s.m)
  | ["push"] => some ({ s with stack := s.m :: s.stack }, "ok")
  | ["pop"] =>
    match s.stack with
    | m :: rest => some ({ s with m := m, stack := rest }, "ok")
    | [] => some (s, "error")
  | _ => none

end MapDrv
