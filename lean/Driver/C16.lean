import Driver.C1516Common
/-!
Driver for C16.  Commands (→ answers):
  helpers <e|c>                                               → name:CONST:param,param… (space separated)
  helper <ver> <e|c> <name> <w:8|16> <ncomps> <order> <args>  → ok type=<int> pos=<n> order=<nats> attrs=<dict> | err <kind>
  add <ver> <e|c> <type> <w> <ncomps> <order> <args>          → same, calling `_add_effect` / `_add_condition` directly
  defaults <ver> <e|c> <type>                                 → <dict> | none        (the merged defaults)
  witness <e|c>                                               → helper names failing `helperOK`
`ncomps` existing components (their content is irrelevant) and the display order `order` describe the trigger before the call.
-/
open Driver Driver.V Aoe.Versions Aoe.Generated

def helpersOf (k : String) : Option (List Helper × List EnumMember × Bool) :=
  if k == "e" then some (Helpers.effectHelpers, Helpers.effectMembers, true)
  else if k == "c" then some (Helpers.conditionHelpers, Helpers.conditionMembers, false) else none

def answer (c : Ctx) (r : Except Err (Dict × Trig)) : String :=
  match r with
  | .error e => "err " ++ showErr e
  | .ok (o, tr) =>
    let ty := match dget o c.sig.typeKey with | some (.int i) => toString i | _ => "?"
    s!"ok type={ty} pos={tr.comps.length - 1} order={showNatList tr.order} attrs={showDict o}"

def step (_ : Unit) (line : String) : Unit × String :=
  match words line with
  | ["helpers", k] =>
    match helpersOf k with
    | none => ((), "bad-op")
    | some (hs, _, _) =>
      ((), " ".intercalate (hs.map (fun h => nameOf h.name ++ ":" ++ nameOf h.const ++ ":" ++ ",".intercalate (h.params.map nameOf))))
  | ["helper", v, k, hn, w, n, order, args] =>
    match version? v, helpersOf k, idOf? hn, w.toNat?, n.toNat?, parseNatList? order, parseDict? args with
    | some vt, some (hs, ms, isE), some hid, some w, some n, some order, some args =>
      match hs.find? (fun h => h.name == hid), tableOf vt k with
      | some h, some (t, _) =>
        let c := ctxOf isE w
        ((), answer c (runHelper c ms t h args { comps := List.replicate n [], order := order }))
      | _, _ => ((), "bad-op")
    | _, _, _, _, _, _, _ => ((), "bad-op")
  | ["add", v, k, ty, w, n, order, args] =>
    match (version? v).bind (fun vt => tableOf vt k), ty.toInt?, w.toNat?, n.toNat?, parseNatList? order, parseDict? args with
    | some (t, isE), some ty, some w, some n, some order, some args =>
      let c := ctxOf isE w
      ((), answer c (addComp c t ty args { comps := List.replicate n [], order := order }))
    | _, _, _, _, _, _ => ((), "bad-op")
  | ["defaults", v, k, ty] =>
    match (version? v).bind (fun vt => tableOf vt k), ty.toInt? with
    | some (t, _), some ty =>
      match defaultsFor t ty with
      | some d => ((), showDict d)
      | none => ((), "none")
    | _, _ => ((), "bad-op")
  | ["witness", k] =>
    match helpersOf k with
    | none => ((), "bad-op")
    | some (hs, ms, isE) =>
      let sig := if isE then Helpers.effectSig else Helpers.conditionSig
      ((), "bad=" ++ ",".intercalate ((helpersBad sig ms hs).map nameOf))
  | _ => ((), "bad-op")

def main : IO Unit := loop step ()
