import Driver.Common
import Aoe.Model.Units
/-!
Driver for C10 (model `Aoe.Units`).  One command per line, one answer per line.

Numbers (`x y z rot`): `i<int>` Python int, `h<int>` float with value int/2, `f<nat>` other float by bit pattern.
Players are 0..8; anything else → `bad-op` (outside the modelled domain).  Handles are object identities =
creation order (file units first).

  cfg notnone=<0|1> caption=<0|1>                         → ok
  load next=<int> units=<u;u;…|->                         → ok | <lists>          u = p:rid:x:y:z:rot:const:status:frame:gar:cap
  add p= const= x= y= z= rot= gar= frame= status= rid=<int|None> cap= tile=<a,b|None>
                                                          → ok h=<handle> id=<rid> | <lists>
  clone src=<h> p= const= x= y= z= rot= gar= frame= status= rid= tile=   (each value or None)
                                                          → ok h=<handle> id=<rid> | <lists>   or   error | <lists>
  remove rid=<int|None> obj=<h|None>                      → ok | <lists>   or   error | <lists>
  setp <h> <p>                                            → ok | <lists>   or   error | <lists>
  chown <h,h,…|-> <p>                                     → ok | <lists>   or   error | <lists>
  newid                                                   → ok id=<n> | <lists>
  save                                                    → ok counter=<n> | <lists>

<lists> = `0:[<unit> <unit> …] 1:[…] … 8:[…]` with
<unit> = `<handle>(rid,player,x,y,z,rot,const,status,frame,gar,cap)`.  The counter is observed only through
the ids that `add`, `clone`, `newid` and `save` return.
-/
open Driver Aoe.Units

def kv (w pre : String) : Option String :=
  if w.startsWith pre then some (w.drop pre.length).toString else none

def parseNum? (s : String) : Option Num :=
  let body := (s.drop 1).toString
  if s.startsWith "i" then body.toInt?.map Num.int
  else if s.startsWith "h" then body.toInt?.map Num.half
  else if s.startsWith "f" then body.toNat?.map Num.flt
  else none

def showNum : Num → String
  | .int v => s!"i{v}"
  | .half t => s!"h{t}"
  | .flt b => s!"f{b}"

def parsePlayer? (s : String) : Option Player :=
  match s.toNat? with
  | some n => if h : n < 9 then some ⟨n, h⟩ else none
  | none => none

/-- `None` or a value -/
def parseOpt? {α : Type} (f : String → Option α) (s : String) : Option (Option α) :=
  if s == "None" then some none else (f s).map some

def parseTile? (s : String) : Option (Int × Int) :=
  match s.splitOn "," with
  | [a, b] => match a.toInt?, b.toInt? with
    | some a, some b => some (a, b)
    | _, _ => none
  | _ => none

def parseUnit? (s : String) : Option Aoe.Units.Unit :=
  match s.splitOn ":" with
  | [p, rid, x, y, z, rot, const, status, frame, gar, cap] =>
    match parsePlayer? p, rid.toInt?, parseNum? x, parseNum? y, parseNum? z, parseNum? rot, const.toInt?,
          status.toInt?, frame.toInt?, gar.toInt?, cap.toInt? with
    | some p, some rid, some x, some y, some z, some rot, some const, some status, some frame, some gar, some cap =>
      some { refId := rid, player := p, x := x, y := y, z := z, rotation := rot, const := const, status := status,
             frame := frame, garrison := gar, caption := cap }
    | _, _, _, _, _, _, _, _, _, _, _ => none
  | _ => none

def parseUnits? (s : String) : Option (List Aoe.Units.Unit) :=
  if s == "-" then some [] else (s.splitOn ";").mapM parseUnit?

def showUnit (s : State) (i : Nat) : String :=
  match s.heap[i]? with
  | some u => s!"{i}({u.refId},{u.player},{showNum u.x},{showNum u.y},{showNum u.z},{showNum u.rotation},{u.const},{u.status},{u.frame},{u.garrison},{u.caption})"
  | none => s!"{i}(dangling)"

def showLists (s : State) : String :=
  let parts := (List.finRange 9).map (fun p => s!"{p}:[{" ".intercalate ((s.lists p).map (showUnit s))}]")
  " ".intercalate parts

def refOf (s : State) (i : Nat) : String :=
  match s.heap[i]? with
  | some u => toString u.refId
  | none => "?"

structure DS where
  cfg : Cfg
  st : State

def bad (d : DS) : DS × String := (d, "bad-op")

def step (d : DS) (line : String) : DS × String :=
  let s := d.st
  match words line with
  | ["cfg", a, b] =>
    match (kv a "notnone=").bind String.toNat?, (kv b "caption=").bind String.toNat? with
    | some a, some b => ({ d with cfg := ⟨a != 0, b != 0⟩ }, "ok")
    | _, _ => bad d
  | ["load", n, us] =>
    match (kv n "next=").bind String.toInt?, (kv us "units=").bind parseUnits? with
    | some n, some us => let s' := load n us; ({ d with st := s' }, s!"ok | {showLists s'}")
    | _, _ => bad d
  | ["add", p, const, x, y, z, rot, gar, frame, status, rid, cap, tile] =>
    match (kv p "p=").bind parsePlayer?, (kv const "const=").bind String.toInt?, (kv x "x=").bind parseNum?,
          (kv y "y=").bind parseNum?, (kv z "z=").bind parseNum?, (kv rot "rot=").bind parseNum?,
          (kv gar "gar=").bind String.toInt?, (kv frame "frame=").bind String.toInt?,
          (kv status "status=").bind String.toInt?, (kv rid "rid=").bind (parseOpt? String.toInt?),
          (kv cap "cap=").bind String.toInt?, (kv tile "tile=").bind (parseOpt? parseTile?) with
    | some p, some const, some x, some y, some z, some rot, some gar, some frame, some status, some rid, some cap,
      some tile =>
      let r := addUnit s { player := p, const := const, x := x, y := y, z := z, rotation := rot, garrison := gar,
                           frame := frame, status := status, refId := rid, caption := cap, tile := tile }
      ({ d with st := r.1 }, s!"ok h={r.2} id={refOf r.1 r.2} | {showLists r.1}")
    | _, _, _, _, _, _, _, _, _, _, _, _ => bad d
  | ["clone", src, p, const, x, y, z, rot, gar, frame, status, rid, tile] =>
    match (kv src "src=").bind String.toNat?, (kv p "p=").bind (parseOpt? parsePlayer?),
          (kv const "const=").bind (parseOpt? String.toInt?), (kv x "x=").bind (parseOpt? parseNum?),
          (kv y "y=").bind (parseOpt? parseNum?), (kv z "z=").bind (parseOpt? parseNum?),
          (kv rot "rot=").bind (parseOpt? parseNum?), (kv gar "gar=").bind (parseOpt? String.toInt?),
          (kv frame "frame=").bind (parseOpt? String.toInt?), (kv status "status=").bind (parseOpt? String.toInt?),
          (kv rid "rid=").bind (parseOpt? String.toInt?), (kv tile "tile=").bind (parseOpt? parseTile?) with
    | some src, some p, some const, some x, some y, some z, some rot, some gar, some frame, some status, some rid,
      some tile =>
      if src ≥ s.heap.length then bad d else
      match cloneUnit d.cfg s src { player := p, const := const, x := x, y := y, z := z, rotation := rot,
                                    garrison := gar, frame := frame, status := status, refId := rid, tile := tile } with
      | .ok r => ({ d with st := r.1 }, s!"ok h={r.2} id={refOf r.1 r.2} | {showLists r.1}")
      | .error _ => (d, s!"error | {showLists s}")
    | _, _, _, _, _, _, _, _, _, _, _, _ => bad d
  | ["remove", rid, obj] =>
    match (kv rid "rid=").bind (parseOpt? String.toInt?), (kv obj "obj=").bind (parseOpt? String.toNat?) with
    | some rid, some obj =>
      if (match obj with | some i => decide (i ≥ s.heap.length) | none => false) then bad d else
      match removeUnit s rid obj with
      | .ok s' => ({ d with st := s' }, s!"ok | {showLists s'}")
      | .error _ => (d, s!"error | {showLists s}")
    | _, _ => bad d
  | ["setp", h, p] =>
    match h.toNat?, parsePlayer? p with
    | some h, some p =>
      if h ≥ s.heap.length then bad d else
      match setPlayer s h p with
      | .ok s' => ({ d with st := s' }, s!"ok | {showLists s'}")
      | .error _ => (d, s!"error | {showLists s}")
    | _, _ => bad d
  | ["chown", hs, p] =>
    match parseNatList? hs, parsePlayer? p with
    | some hs, some p =>
      if hs.any (· ≥ s.heap.length) then bad d else
      let r := chownList s hs p
      ({ d with st := r.1 }, (match r.2 with | none => "ok" | some _ => "error") ++ s!" | {showLists r.1}")
    | _, _ => bad d
  | ["newid"] =>
    let r := newId s
    ({ d with st := r.2 }, s!"ok id={r.1} | {showLists r.2}")
  | ["save"] =>
    let r := saveCounter s
    ({ d with st := r.2 }, s!"ok counter={r.1} | {showLists r.2}")
  | _ => bad d

def main : IO _root_.Unit := loop step { cfg := Cfg.asIs, st := load 0 [] }
