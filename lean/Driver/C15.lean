import Driver.C1516Common
/-!
Driver for C15 (versions in hundredths, e.g. 136).  Commands (→ answers):
  versions                         → 136,137,…
  types <ver> <e|c>                → ids=<ints, ascending>
  members <e|c>                    → ids=<ints>             (enum member values)
  create <ver> <e|c> <type>        → ok | err <kind>       (`_add_effect(type)` with no arguments)
  gated <ver>                      → Class.attr=<S|U|X> …  (every link with a Support; X = class not reached in <ver>)
  link <ver> <Class> <attr>        → reach=<0|1> kind=<plain|object|history> gated=<0|1> supports=<0|1> exists=<0|1>
  attrr <ver> <Class> <attr> <fresh|pulled>   → read=… push=… reread=…   (links that are reconstruction properties: no setter)
  attr <ver> <Class> <attr> <fresh|pulled>
        → read=<value|none|unsupported> wnone=<ok|unsupported> wval=<ok|unsupported> push=<written|skipped|error> reread=<value|unsupported>
  witness <ver>                    → links=<Class.attr,…> effects=<ids> conditions=<ids>   (offending entries of the obligation)
-/
open Driver Driver.V Aoe.Versions Aoe.Generated

def reachSet (vt : VersionTable) : List Nat := reachable Links.classes Links.roots vt.version Links.classes.length

def kindStr : LinkKind → String
  | .history _ => "history" | .plain => "plain" | .object _ => "object"

def step (_ : Unit) (line : String) : Unit × String :=
  match words line with
  | ["versions"] => ((), ",".intercalate (Versions.all.map (fun vt => toString vt.version)))
  | ["types", v, k] =>
    match (version? v).bind (fun vt => tableOf vt k) with
    | some (t, _) => ((), "ids=" ++ showIntList (t.ids.toArray.qsort (· < ·)).toList)
    | none => ((), "bad-op")
  | ["members", k] =>
    if k == "e" then ((), "ids=" ++ showIntList (Helpers.effectMembers.map (·.value)))
    else if k == "c" then ((), "ids=" ++ showIntList (Helpers.conditionMembers.map (·.value)))
    else ((), "bad-op")
  | ["create", v, k, ty] =>
    match (version? v).bind (fun vt => tableOf vt k), ty.toInt? with
    | some (t, isE), some ty =>
      match addComp (ctxOf isE 16) t ty [] { comps := [], order := [] } with
      | .ok _ => ((), "ok")
      | .error e => ((), "err " ++ showErr e)
    | _, _ => ((), "bad-op")
  | ["gated", v] =>
    match version? v with
    | none => ((), "bad-op")
    | some vt =>
      let r := reachSet vt
      let items := Links.classes.foldl (fun acc c =>
        acc ++ (c.links.filter (fun l => l.support.isSome)).map (fun l =>
          nameOf c.cls ++ "." ++ nameOf l.name ++ "=" ++
            (if !memN c.cls r then "X" else if supportsOpt l.support vt.version then "S" else "U"))) []
      ((), if items.isEmpty then "-" else " ".intercalate items)
  | ["link", v, cn, an] =>
    match version? v, classNamed? cn, idOf? an with
    | some vt, some c, some a =>
      match c.links.find? (fun l => l.name == a) with
      | none => ((), "bad-op")
      | some l =>
        let b := fun (x : Bool) => if x then "1" else "0"
        ((), s!"reach={b (memN c.cls (reachSet vt))} kind={kindStr l.kind} gated={b l.support.isSome} supports={b (supportsOpt l.support vt.version)} exists={b (hasPath vt.paths l.path)}")
    | _, _, _ => ((), "bad-op")
  | [op, v, cn, an, st] =>
    if op != "attr" && op != "attrr" then ((), "bad-op") else
    match version? v, classNamed? cn, idOf? an with
    | some vt, some c, some a =>
      match c.links.find? (fun l => l.name == a) with
      | none => ((), "bad-op")
      | some l =>
        if st != "fresh" && st != "pulled" then ((), "bad-op") else
        let sentinel := Val.int 4242
        -- state of the class attribute: a pull (construct from sections) runs overwrite_unsupported_properties
        let pulled := pullLink vt.paths vt.version l [(l.path, Val.int 7)]
        match pulled with
        | .error e => ((), "err " ++ showErr e)
        | .ok (pv, pst) =>
          let state := if st == "pulled" then pst else AttrState.available
          let cur : Val := if st == "pulled" then pv.getD .none else
                             (if supportsOpt l.support vt.version then Val.int 7 else .none)
          let rd := match readAttr state cur with
            | .ok .none => "none" | .ok _ => "value" | .error _ => "unsupported"
          let wn := match writeAttr state cur .none with | .ok _ => "ok" | .error _ => "unsupported"
          let (wv, held) := match writeAttr state cur sentinel with
            | .ok x => ("ok", x) | .error _ => ("unsupported", cur)
          let held := if op == "attrr" then sentinel else held
          let (push, st') := match pushLink vt.paths vt.version l held [] with
            | .ok s => ((if s.isEmpty then "skipped" else "written"), s)
            | .error _ => ("error", [])
          let rr := match pullLink vt.paths vt.version l st' with
            | .ok (some _, .available) => "value"
            | .ok (none, .available) => "none"
            | .ok (_, .disabled) => "unsupported"
            | .error _ => "error"
          if op == "attrr" then ((), s!"read={rd} push={push} reread={rr}")
          else ((), s!"read={rd} wnone={wn} wval={wv} push={push} reread={rr}")
    | _, _, _ => ((), "bad-op")
  | ["witness", v] =>
    match version? v with
    | none => ((), "bad-op")
    | some vt =>
      let ls := (linksBad Links.classes Links.roots vt.paths vt.version).map (fun p => nameOf p.1 ++ "." ++ nameOf p.2)
      ((), s!"links={",".intercalate ls} effects={showIntList (tableBad (Helpers.ctxE 16) vt.effects)} conditions={showIntList (tableBad Helpers.ctxC vt.conditions)}")
  | _ => ((), "bad-op")

def main : IO Unit := loop step ()
