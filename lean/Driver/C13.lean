import Driver.Common
import Aoe.Model.Save
/-!
Driver for C13 (save pipeline, model `Aoe.Save`).  Commands (→ answers):

  pipeline sv=<0|1> sr=<0|1> cbs=<n> commits=<n> sers=<n>
      → `<kind>:<count> … n=<steps> fs_steps=<k> after_open=<k>`   run-length order classes of `pipeline`,
        number of steps that touch the filesystem, number of fallible steps after the first of them
  save guard=<pinned|fixed> allow=<0|1> sv=<0|1> sr=<0|1> dest=<same|other> file=<absent|present> variant=<0|1>
       cbs=<n> commits=<n> sers=<n> fault=<None|k>
      → `<ok|error> dest=<absent|old|new|partial> src=<absent|old|new|partial> rest=<same|changed>`
  early  (same arguments as save)   → the same observation for `earlyOpenPipeline` (self-test of the harness oracle)

World of a `save` command: path 1 = the file the scenario was loaded from (content [1]); path 2 = another
destination (content [2] when `file=present`); path 3 = a bystander file (content [3]); `sers` = number of
serialise events (header + sections, ≥ 1); deflate = identity.  `dest=same` saves to path 1.
-/
open Driver Aoe.Save

def kv (w pre : String) : Option String :=
  if w.startsWith pre then some (w.drop pre.length).toString else none

def kvNat (w pre : String) : Option Nat := (kv w pre).bind String.toNat?
def kvBool (w pre : String) : Option Bool :=
  match kv w pre with
  | some "0" => some false
  | some "1" => some true
  | _ => none

def showKind : Kind → String
  | .validate => "validate" | .callback => "callback" | .filename => "filename" | .xsValidate => "xs"
  | .commit => "commit" | .serialise => "serialise" | .compress => "compress" | .openWrite => "open" | .other => "other"

/-- run-length encoding of the kinds of a step list -/
def runLength : List Kind → List (Kind × Nat)
  | [] => []
  | k :: rest =>
    match runLength rest with
    | (k', n) :: tl => if k = k' then (k, n + 1) :: tl else (k, 1) :: (k', n) :: tl
    | [] => [(k, 1)]

def mkCfg (g : Guard) (allow sv sr : Bool) (same : Bool) (variant : Bool) (cbs commits sers : Nat) : Cfg :=
  { guard := g, allow := allow, skipValidation := sv, skipReconstruction := sr, source := some 1,
    dest := if same then 1 else 2, variantOk := variant, callbacks := cbs, commits := commits,
    header := [10], sections := List.replicate (sers - 1) [11], deflate := id }

def mkFs (present : Bool) : FS := fun p =>
  if p = 1 then some [1] else if p = 2 then (if present then some [2] else none) else if p = 3 then some [3] else none

def classify (pre post : Option Bytes) (pl : Bytes) : String :=
  match post with
  | none => if pre.isNone then "absent" else "partial"
  | some b => if post = pre then "old" else if b = pl then "new" else "partial"

def probes : List Path := [0, 1, 2, 3, 4, 5]

def observe (c : Cfg) (fs : FS) (r : Result) : String :=
  let pl := payload c.header (c.deflate c.sections.flatten)
  let rest := probes.all fun p => p = c.dest || p = 1 || r.fs p = fs p
  let out := if r.err.isNone then "ok" else "error"
  s!"{out} dest={classify (fs c.dest) (r.fs c.dest) pl} src={classify (fs 1) (r.fs 1) pl} rest={if rest then "same" else "changed"}"

def parseSave (ws : List String) : Option (Cfg × FS × Option Nat) :=
  match ws with
  | [g, a, sv, sr, d, f, v, cb, cm, se, fl] =>
    let g? : Option Guard := match kv g "guard=" with
      | some "pinned" => some .asPinned | some "fixed" => some .fixed | _ => none
    let d? : Option Bool := match kv d "dest=" with
      | some "same" => some true | some "other" => some false | _ => none
    let f? : Option Bool := match kv f "file=" with
      | some "present" => some true | some "absent" => some false | _ => none
    let fl? : Option (Option Nat) := match kv fl "fault=" with
      | some "None" => some none | some s => (s.toNat?).map some | none => none
    match g?, kvBool a "allow=", kvBool sv "sv=", kvBool sr "sr=", d?, f?, kvBool v "variant=",
          kvNat cb "cbs=", kvNat cm "commits=", kvNat se "sers=", fl? with
    | some g, some a, some sv, some sr, some same, some present, some v, some cb, some cm, some se, some fl =>
      -- a save to the source path finds the source file there; `file=absent` is then not a possible world
      if se = 0 || (same && !present) then none
      else some (mkCfg g a sv sr same v cb cm se, mkFs present, fl)
    | _, _, _, _, _, _, _, _, _, _, _ => none
  | _ => none

def step (u : Unit) (line : String) : Unit × String :=
  match words line with
  | ["pipeline", sv, sr, cb, cm, se] =>
    match kvBool sv "sv=", kvBool sr "sr=", kvNat cb "cbs=", kvNat cm "commits=", kvNat se "sers=" with
    | some sv, some sr, some cb, some cm, some se =>
      if se = 0 then (u, "bad-op") else
      let c := mkCfg .fixed false sv sr false true cb cm se
      let p := pipeline c
      let rl := (runLength (p.map Step.kind)).map fun (k, n) => s!"{showKind k}:{n}"
      let nfs := (p.filter Step.touchesFs).length
      (u, s!"{" ".intercalate rl} n={p.length} fs_steps={nfs} after_open={fallibleAfterOpen p}")
    | _, _, _, _, _ => (u, "bad-op")
  | "save" :: rest =>
    match parseSave rest with
    | some (c, fs, fault) => (u, observe c fs (save c fault fs))
    | none => (u, "bad-op")
  | "early" :: rest =>
    match parseSave rest with
    | some (c, fs, fault) => (u, observe c fs (runSteps c (earlyOpenPipeline c) fault fs))
    | none => (u, "bad-op")
  | _ => (u, "bad-op")

def main : IO Unit := loop step ()
