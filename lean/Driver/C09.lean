import Driver.Common
import Aoe.Model.Heap
/-!
Driver for C09 (heap / scenario-store model).  Scenarios are numbered `1 … n` (their model UUIDs).
Object references:  `s<u>.<i>` = i-th trigger held by scenario u,  `h<n>.<k>` = k-th object of handle n
(handles are created by `import` – the returned list – and by `remove` – the removed object);
components: `<trigger-ref>.e<j>` / `<trigger-ref>.c<j>` (j-th effect / condition).

  init <n> <fixImport:0|1> <fixNested:0|1>           → ok
  addtrig <u> <name>                                 → ok <state>
  addcomp <u> <i> <act|deact|eff|cond> <target> <val>→ ok <state>
  edit <tref> name <v> | edit <cref> val|target <v>  → ok <state>
  import <u> <tref,tref,…>                           → ok <state>      (new handle = returned list)
  adopt <u> <append|insert|extend|setitem|iadd|assign> <pos|-> <tref,…|-> <copyFirst:0|1>  → ok <state>
  remove <u> <i>                                     → ok <state>      (new handle = removed object)
  save <u>                                           → ok out=<section of u> | sec1=… sec2=…
  anything the model rejects                         → error

`<state>` = `S1[T…] S2[…] … H0[…] …`, a trigger is `T<alias>:<owner>:<tid>:<name>(<effects>|<conditions>)`, a
component `E|C<alias>:<owner>:<kind>:<target>:<val>`; aliases are addresses renumbered by first occurrence.
-/
open Driver Aoe.Heap

structure St where
  cfg : Cfg
  n : Nat
  w : World
  handles : List (List Addr)

def kindStr : Kind → String
  | .act => "act" | .deact => "deact" | .eff => "eff" | .cond => "cond"

def parseKind? : String → Option Kind
  | "act" => some .act | "deact" => some .deact | "eff" => some .eff | "cond" => some .cond | _ => none

def aliasOf (m : List Nat) (a : Nat) : List Nat × Nat :=
  match m.idxOf? a with
  | some i => (m, i)
  | none => (m ++ [a], m.length)

def showComps (pre : String) (cs : List (Addr × Comp)) (cm : List Nat) : List Nat × List String :=
  cs.foldl (fun (acc : List Nat × List String) (p : Addr × Comp) =>
    let (cm, out) := acc
    let (cm, al) := aliasOf cm p.1
    (cm, out ++ [s!"{pre}{al}:{p.2.uuid}:{kindStr p.2.kind}:{p.2.target}:{p.2.val}"])) (cm, [])

def showTrig (h : Heap) (a : Addr) (tm cm : List Nat) : List Nat × List Nat × String :=
  let (tm, al) := aliasOf tm a
  match h.trigs[a]? with
  | none => (tm, cm, s!"T{al}:dangling")
  | some t =>
    let cs : List (Addr × Comp) := t.comps.filterMap (fun c => (h.comps[c]?).map (fun co => (c, co)))
    let (cm, es) := showComps "E" (cs.filter (fun p => !p.2.kind.isCond)) cm
    let (cm, cds) := showComps "C" (cs.filter (fun p => p.2.kind.isCond)) cm
    (tm, cm, s!"T{al}:{t.uuid}:{t.tid}:{t.name}({",".intercalate es}|{",".intercalate cds})")

def showList (h : Heap) (l : List Addr) (tm cm : List Nat) : List Nat × List Nat × String :=
  let r := l.foldl (fun (acc : List Nat × List Nat × List String) a =>
    let (tm, cm, out) := acc
    let (tm, cm, s) := showTrig h a tm cm
    (tm, cm, out ++ [s])) (tm, cm, [])
  (r.1, r.2.1, " ".intercalate r.2.2)

def showState (s : St) : String :=
  let us := (List.range s.n).map (· + 1)
  let r := us.foldl (fun (acc : List Nat × List Nat × List String) u =>
    let (tm, cm, out) := acc
    let (tm, cm, x) := showList s.w.heap (s.w.trigsOf u) tm cm
    (tm, cm, out ++ [s!"S{u}[{x}]"])) ([], [], [])
  let r := s.handles.zipIdx.foldl (fun (acc : List Nat × List Nat × List String) (p : List Addr × Nat) =>
    let (tm, cm, out) := acc
    let (tm, cm, x) := showList s.w.heap p.1 tm cm
    (tm, cm, out ++ [s!"H{p.2}[{x}]"])) r
  " ".intercalate r.2.2

def showSComp (c : SComp) : String := s!"{kindStr c.kind}:{c.target}:{c.val}"
def showSTrig (t : STrig) : String :=
  s!"{t.name}({",".intercalate (t.effs.map showSComp)}|{",".intercalate (t.conds.map showSComp)})"
def showSect (l : List STrig) : String := "[" ++ " ".intercalate (l.map showSTrig) ++ "]"

/-- `s<u>.<i>` / `h<n>.<k>` -/
def trigRef? (s : St) (x : String) : Option Addr :=
  match x.splitOn "." with
  | [a, b] =>
    match ((a.drop 1).toString).toNat?, b.toNat? with
    | some p, some q =>
      if a.startsWith "s" then (s.w.trigsOf p)[q]?
      else if a.startsWith "h" then (s.handles[p]?).bind (·[q]?)
      else none
    | _, _ => none
  | _ => none

def trigRefs? (s : St) (x : String) : Option (List Addr) :=
  if x == "-" then some [] else (x.splitOn ",").mapM (trigRef? s)

/-- `<tref>.e<j>` / `<tref>.c<j>` -/
def compRef? (s : St) (x : String) : Option Addr :=
  match x.splitOn "." with
  | [a, b, c] =>
    match trigRef? s (a ++ "." ++ b), ((c.drop 1).toString).toNat? with
    | some ta, some j =>
      match s.w.heap.trigs[ta]? with
      | none => none
      | some t =>
        let cs : List (Addr × Comp) := t.comps.filterMap (fun c => (s.w.heap.comps[c]?).map (fun co => (c, co)))
        if c.startsWith "e" then ((cs.filter (fun p => !p.2.kind.isCond))[j]?).map (·.1)
        else if c.startsWith "c" then ((cs.filter (fun p => p.2.kind.isCond))[j]?).map (·.1)
        else none
    | _, _ => none
  | _ => none

def parseHow? (h pos : String) : Option How :=
  match h, pos.toNat? with
  | "append", _ => some .append
  | "extend", _ => some .extend
  | "iadd", _ => some .iadd
  | "assign", _ => some .assign
  | "insert", some p => some (.insert p)
  | "setitem", some p => some (.setitem p)
  | _, _ => none

def doOp (s : St) (op : Op) (mkHandle : Bool) : St × String :=
  match step s.cfg s.w op with
  | .error _ => (s, "error")
  | .ok (w1, r) =>
    let hs := match r, mkHandle with
      | .addrs l, true => s.handles ++ [l]
      | _, _ => s.handles
    let s1 := { s with w := w1, handles := hs }
    match r with
    | .out o =>
      let secs := (List.range s.n).map (fun k => s!"sec{k + 1}={showSect (w1.sectOf (k + 1))}")
      (s1, s!"ok out={showSect o} | {" ".intercalate secs}")
    | _ => (s1, "ok " ++ showState s1)

def stepLine (s : St) (line : String) : St × String :=
  match words line with
  | ["init", n, a, b] =>
    match n.toNat?, a.toNat?, b.toNat? with
    | some n, some a, some b =>
      ({ cfg := ⟨a != 0, b != 0⟩, n := n, w := initWorld n, handles := [] }, "ok")
    | _, _, _ => (s, "bad-op")
  | ["addtrig", u, name] =>
    match u.toNat?, parseInt? name with
    | some u, some name => doOp s (.addTrigger u name) false
    | _, _ => (s, "bad-op")
  | ["addcomp", u, i, k, t, v] =>
    match u.toNat?, i.toNat?, parseKind? k, parseInt? t, parseInt? v with
    | some u, some i, some k, some t, some v => doOp s (.addComp u i k t v) false
    | _, _, _, _, _ => (s, "bad-op")
  | ["edit", r, "name", v] =>
    match parseInt? v with
    | some v =>
      match trigRef? s r with
      | some a => doOp s (.editTrig a v) false
      | none => (s, "error")
    | none => (s, "bad-op")
  | ["edit", r, f, v] =>
    match parseInt? v, (if f == "val" then some CField.val else if f == "target" then some CField.target else none) with
    | some v, some f =>
      match compRef? s r with
      | some c => doOp s (.editComp c f v) false
      | none => (s, "error")
    | _, _ => (s, "bad-op")
  | ["import", u, rs] =>
    match u.toNat? with
    | some u =>
      match trigRefs? s rs with
      | some refs => doOp s (.importT u refs) true
      | none => (s, "error")
    | none => (s, "bad-op")
  | ["adopt", u, h, pos, rs, cf] =>
    match u.toNat?, parseHow? h pos, cf.toNat? with
    | some u, some how, some cf =>
      match trigRefs? s rs with
      | some refs => doOp s (.adopt u how refs (cf != 0)) false
      | none => (s, "error")
    | _, _, _ => (s, "bad-op")
  | ["remove", u, i] =>
    match u.toNat?, i.toNat? with
    | some u, some i => doOp s (.remove u i) true
    | _, _ => (s, "bad-op")
  | ["save", u] =>
    match u.toNat? with
    | some u => doOp s (.save u) false
    | none => (s, "bad-op")
  | _ => (s, "bad-op")

def main : IO Unit := loop stepLine { cfg := pinned, n := 0, w := initWorld 0, handles := [] }
