import Driver.TrigCommon
/-! Driver for C07 (reordering operations perform the documented permutation): the shared trigger-manager command set. -/
def main : IO Unit := Driver.loop TrigDrv.step TrigDrv.St.init
