import Driver.Common
import Aoe.Model.PerPlayer
/-!
Driver for C08.  Commands (→ answers):
  reset                                   → ok
  trig <name> <conds> <effs>              → ok <index>      (add_trigger + components; trigger_id = index)
        conds: `-` or `;`-separated `kind:src:tgt:rest`        (src/tgt: integer or `N` = None)
        effs : `-` or `;`-separated `kind:src:tgt:link:rest`
  order <ints>                            → ok | bad-op     (must be a permutation of the trigger indices)
  cpp <sel> frm=<int> fo=<b> is=<b> it=<b> gaia=<b> players=<N|ints|-> lock=<lc><le>/<ctypes>/<etypes>/<cids>/<eids>
        → error | ok ret=<player>:<pos>,… | <dump>
  tree <sel> frm= fo= is= it= gaia= players= lock= group=<-1|0|1> fixed=<b>
        → error | ok ret=<player>:<pos>+<pos>…,… | <dump>
  rp <sel> to=<int> only=<N|int> is=<b> it=<b> lock=…
        → error | ok ret=<pos> | <dump>
  sel:  i<int> (trigger index) | d<int> (display index) | o<nat> (the object at that list position)
  dump: order=<ints> | <name>~<trigger_id>~<first position holding the same object>~<conds>~<effs> | …
-/
open Driver Aoe.PerPlayer

def optInt (s : String) : Option (Option Int) := if s == "N" then some none else s.toInt?.map some
def showOpt : Option Int → String
  | none => "N"
  | some v => toString v

def kv (w pre : String) : Option String :=
  if w.startsWith pre then some (w.drop pre.length).toString else none

def bit (s : String) : Option Bool := if s == "1" then some true else if s == "0" then some false else none

def parseCond (s : String) : Option Comp :=
  match s.splitOn ":" with
  | [k, a, b, r] => do
    let k ← k.toInt?; let a ← optInt a; let b ← optInt b; let r ← r.toNat?
    pure { kind := k, src := a, tgt := b, link := 0, rest := r }
  | _ => none

def parseEff (s : String) : Option Comp :=
  match s.splitOn ":" with
  | [k, a, b, l, r] => do
    let k ← k.toInt?; let a ← optInt a; let b ← optInt b; let l ← l.toInt?; let r ← r.toNat?
    pure { kind := k, src := a, tgt := b, link := l, rest := r }
  | _ => none

def parseList (f : String → Option Comp) (s : String) : Option (List Comp) :=
  if s == "-" then some [] else (s.splitOn ";").mapM f

def parseLock (s : String) : Option Lock :=
  match s.splitOn "/" with
  | [b, ct, et, ci, ei] => do
    let (lc, le) ← match b.toList with
      | [x, y] => do let x ← bit (String.singleton x); let y ← bit (String.singleton y); pure (x, y)
      | _ => none
    let ct ← parseIntList? ct; let et ← parseIntList? et; let ci ← parseIntList? ci; let ei ← parseIntList? ei
    pure { lockConds := lc, lockEffs := le, condTypes := ct, effTypes := et, condIds := ci, effIds := ei }
  | _ => none

def parseSel (s : State) (w : String) : Option Sel :=
  let body := (w.drop 1).toString
  if w.startsWith "i" then body.toInt?.map Sel.index
  else if w.startsWith "d" then body.toInt?.map Sel.display
  else if w.startsWith "o" then do
    let k ← body.toNat?
    let a ← s.list[k]?
    pure (Sel.object a)
  else none

def parsePlayers (s : String) : Option (Option (List Int)) :=
  if s == "N" then some none else (parseIntList? s).map some

def showCond (c : Comp) : String := s!"{c.kind}:{showOpt c.src}:{showOpt c.tgt}:{c.rest}"
def showEff (c : Comp) : String := s!"{c.kind}:{showOpt c.src}:{showOpt c.tgt}:{c.link}:{c.rest}"
def showComps (f : Comp → String) (l : List Comp) : String :=
  if l.isEmpty then "-" else ";".intercalate (l.map f)

def posOf (s : State) (a : Nat) : String :=
  match s.list.findIdx? (· == a) with
  | some k => toString k
  | none => "?"

def dump (s : State) : String :=
  let ts := s.list.map (fun a =>
    match s.heap[a]? with
    | some t => s!"{t.name.replace " " "_"}~{t.tid}~{posOf s a}~{showComps showCond t.conds}~{showComps showEff t.effs}"
    | none => "dangling")
  s!"order={showIntList s.order} | " ++ " | ".intercalate ts

def isPermOfRange (o : List Int) (n : Nat) : Bool :=
  o.length == n && (List.range n).all (fun i => o.contains (i : Int))

def parseArgs (ws : List String) : Option Args :=
  match ws with
  | [frm, fo, is_, it, gaia, players, lock] => do
    let frm ← (kv frm "frm=").bind String.toInt?
    let fo ← (kv fo "fo=").bind bit
    let is_ ← (kv is_ "is=").bind bit
    let it ← (kv it "it=").bind bit
    let gaia ← (kv gaia "gaia=").bind bit
    let players ← (kv players "players=").bind parsePlayers
    let lock ← (kv lock "lock=").bind parseLock
    pure { frm := frm, flags := { fromOnly := fo, incSrc := is_, incTgt := it }, lock := lock, gaia := gaia,
           players := players }
  | _ => none

def step (s : State) (line : String) : State × String :=
  match words line with
  | ["reset"] => ({ heap := [], list := [], order := [] }, "ok")
  | ["trig", name, cs, es] =>
    match parseList parseCond cs, parseList parseEff es with
    | some cs, some es =>
      if s.heap.length != s.list.length then (s, "bad-op")     -- only while building the initial state
      else
        let n := s.list.length
        ({ heap := s.heap ++ [{ name := name, tid := (n : Int), conds := cs, effs := es }], list := s.list ++ [s.heap.length],
           order := s.order ++ [(n : Int)] }, s!"ok {n}")
    | _, _ => (s, "bad-op")
  | ["order", o] =>
    match parseIntList? o with
    | some o => if isPermOfRange o s.list.length then ({ s with order := o }, "ok") else (s, "bad-op")
    | none => (s, "bad-op")
  | "cpp" :: sel :: rest =>
    match parseSel s sel, parseArgs rest with
    | some sel, some a =>
      match copyPerPlayer s a sel with
      | .error _ => (s, "error")
      | .ok (s', d) =>
        let r := if d.isEmpty then "-" else ",".intercalate (d.map (fun pa => s!"{pa.1}:{posOf s' pa.2}"))
        (s', s!"ok ret={r} | {dump s'}")
    | _, _ => (s, "bad-op")
  | ["tree", sel, frm, fo, is_, it, gaia, players, lock, group, fixed] =>
    match parseSel s sel, parseArgs [frm, fo, is_, it, gaia, players, lock], (kv group "group=").bind String.toInt?,
          (kv fixed "fixed=").bind bit with
    | some sel, some a, some g, some fixed =>
      let g? : Option GroupBy := if g == -1 then some .none else if g == 0 then some .trigger
        else if g == 1 then some .player else none
      match g? with
      | none => (s, "bad-op")
      | some g =>
        match copyTreePerPlayer fixed (2 * s.list.length + 2) s a sel g with
        | .error _ => (s, "error")
        | .ok (s', d) =>
          let r := ",".intercalate (d.map (fun pl => s!"{pl.1}:" ++ "+".intercalate (pl.2.map (posOf s'))))
          (s', s!"ok ret={r} | {dump s'}")
    | _, _, _, _ => (s, "bad-op")
  | ["rp", sel, to, only, is_, it, lock] =>
    match parseSel s sel, (kv to "to=").bind String.toInt?, (kv only "only=").bind optInt, (kv is_ "is=").bind bit,
          (kv it "it=").bind bit, (kv lock "lock=").bind parseLock with
    | some sel, some to, some only, some is_, some it, some lock =>
      match replacePlayer s sel to only is_ it lock with
      | .error _ => (s, "error")
      | .ok (s', a) => (s', s!"ok ret={posOf s' a} | {dump s'}")
    | _, _, _, _, _, _ => (s, "bad-op")
  | _ => (s, "bad-op")

def main : IO Unit := loop step { heap := [], list := [], order := [] }
