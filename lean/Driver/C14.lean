import Driver.Common
import Aoe.Model.Area
/-!
Driver for C14.  One command:

  area size=<n> via=<ctor|select|set> rect=<x1>,<y1>,<x2|N>,<y2|N> st=<full|edge|grid|lines|corners> inv=<0|1>
       gx=<i> gy=<i> lx=<i> ly=<i> bx=<i> by=<i> ax=<x|y|o> cx=<i> cy=<i>

  → `raw=<x1>,<y1>,<x2>,<y2> c=<coords> w=<within> k=<chunks>[ alt=<chunks>]`   or   `error` (construction raised)

  coords : `x,y;x,y;…` in the order of `to_coords()`, `-` when empty, `E` when it raises
  within : one character per map tile, row-major (y outer, x inner): `1`, `0`, `E` (raises); `-` for an empty map
  chunks : chunks as a set of sets – tiles sorted row-major inside a chunk, chunks sorted by their first tile,
           empty chunks dropped; `x,y;x,y|x,y;…`, `-` when there is none, `E` when `to_chunks()` raises
  alt    : only printed when it differs from `k`: the chunks under the repaired tiles-per-row (`PerRow.width`, F10)
-/
open Driver Aoe.Area

def kvI (w pre : String) : Option Int :=
  if w.startsWith pre then (w.drop pre.length).toString.toInt? else none

def kvS (w pre : String) : Option String :=
  if w.startsWith pre then some (w.drop pre.length).toString else none

def parseOI (s : String) : Option (Option Int) :=
  if s == "N" then some none else s.toInt?.map some

def showTile (t : Tile) : String := s!"{t.x},{t.y}"

def showTiles (l : List Tile) : String :=
  if l.isEmpty then "-" else ";".intercalate (l.map showTile)

def tileLe (a b : Tile) : Bool := a.y < b.y || (a.y == b.y && a.x ≤ b.x)

def chunkLe (a b : List Tile) : Bool :=
  match a, b with
  | x :: _, y :: _ => tileLe x y
  | [], _ => true
  | _, [] => false

def showChunks (r : Except Err (List (List Tile))) : String :=
  match r with
  | .error _ => "E"
  | .ok cs =>
    let cs := (cs.filter (fun c => !c.isEmpty)).map (fun c => (c.toArray.qsort (fun a b => tileLe a b && a != b)).toList)
    let cs := (cs.toArray.qsort (fun a b => chunkLe a b && a != b)).toList
    if cs.isEmpty then "-" else "|".intercalate (cs.map fun c => ";".intercalate (c.map showTile))

def showCoords (r : Except Err (List Tile)) : String :=
  match r with
  | .error _ => "E"
  | .ok l => showTiles l

def showWithin (a : Area) : String :=
  let n := a.size.toNat
  if n == 0 then "-" else
  String.join ((List.range n).flatMap fun (y : Nat) => (List.range n).map fun (x : Nat) =>
    match isWithin a (Int.ofNat x) (Int.ofNat y) with
    | .ok true => "1" | .ok false => "0" | .error _ => "E")

def parseState : String → Option State
  | "full" => some .full | "edge" => some .edge | "grid" => some .grid
  | "lines" => some .lines | "corners" => some .corners | _ => none

def parseAxis : String → Option Axis
  | "x" => some .x | "y" => some .y | "o" => some .other | _ => none

def step (_u : Unit) (line : String) : Unit × String :=
  match words line with
  | ["area", sz, via, rect, st, inv, gx, gy, lx, ly, bx, by_, ax, cx, cy] =>
    let r : Option String := do
      let size ← kvI sz "size="
      let via ← kvS via "via="
      let rs ← kvS rect "rect="
      let st ← (kvS st "st=").bind parseState
      let inv ← kvI inv "inv="
      let gx ← kvI gx "gx="
      let gy ← kvI gy "gy="
      let lx ← kvI lx "lx="
      let ly ← kvI ly "ly="
      let bx ← kvI bx "bx="
      let by_ ← kvI by_ "by="
      let ax ← (kvS ax "ax=").bind parseAxis
      let cx ← kvI cx "cx="
      let cy ← kvI cy "cy="
      let (x1, y1, x2, y2) ← match rs.splitOn "," with
        | [a, b, c, d] => do
            let a ← parseOI a; let b ← parseOI b; let c ← parseOI c; let d ← parseOI d
            pure (a, b, c, d)
        | _ => none
      let raw : Except Err (Int × Int × Int × Int) ← match via, x1, y1, x2, y2 with
        | "ctor", _, _, _, _ => some (ctorCoords size x1 y1 x2 y2)
        | "select", some x1, some y1, _, _ => some (selectCoords size x1 y1 x2 y2)
        | "set", some x1, some y1, some x2, some y2 => some (.ok (x1, y1, x2, y2))
        | _, _, _, _, _ => none
      match raw with
      | .error _ => pure "error"
      | .ok (x1, y1, x2, y2) =>
        let a : Area := { size := size, rx1 := x1, ry1 := y1, rx2 := x2, ry2 := y2, state := st, inverted := inv != 0,
                          gapX := gx, gapY := gy, lineX := lx, lineY := ly, blockX := bx, blockY := by_, axis := ax,
                          cornerX := cx, cornerY := cy }
        let k := showChunks (toChunksW .height a)
        let alt := showChunks (toChunksW .width a)
        let tail := if alt == k then "" else s!" alt={alt}"
        pure s!"raw={x1},{y1},{x2},{y2} c={showCoords (toCoords a)} w={showWithin a} k={k}{tail}"
    match r with
    | some s => ((), s)
    | none => ((), "bad-op")
  | _ => ((), "bad-op")

def main : IO Unit := loop step ()
