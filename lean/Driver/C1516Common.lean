import Driver.Common
import Aoe.Model.Versions
import Aoe.Generated.TNames
import Aoe.Generated.Versions
import Aoe.Generated.Links
import Aoe.Generated.Helpers
/-!
Shared plumbing of the C15 and C16 drivers: name table lookups, value / dict syntax, version lookup.

Values:  `n` (None) · `i<int>` · `s<nat>` (interned string id) · `l<int>,<int>…` / `l-` (list of ints)
Dicts:   `name=value;name=value` or `-` (names as strings; printed sorted by name)
-/
namespace Driver.V
open Aoe.Versions Aoe.Generated

def nameOf (i : Nat) : String := (TNames.names[i]?).getD s!"#{i}"

def idOf? (s : String) : Option Nat := TNames.names.findIdx? (· == s)

def showVal : Val → String
  | .none => "n"
  | .int i => s!"i{i}"
  | .str s => s!"s{s}"
  | .list l => "l" ++ Driver.showIntList l

def parseVal? (s : String) : Option Val :=
  if s == "n" then some .none
  else if s.startsWith "i" then ((s.drop 1).toString.toInt?).map .int
  else if s.startsWith "s" then ((s.drop 1).toString.toNat?).map .str
  else if s.startsWith "l" then (Driver.parseIntList? (s.drop 1).toString).map .list
  else none

def parseDict? (s : String) : Option Dict :=
  if s == "-" then some [] else
  (s.splitOn ";").mapM (fun kv =>
    match kv.splitOn "=" with
    | [k, v] => match idOf? k, parseVal? v with
      | some k, some v => some (k, v)
      | _, _ => none
    | _ => none)

def showDict (d : Dict) : String :=
  if d.isEmpty then "-" else
  let items := (d.map (fun kv => (nameOf kv.1, showVal kv.2))).toArray.qsort (fun a b => a.1 < b.1)
  ";".intercalate (items.toList.map (fun kv => kv.1 ++ "=" ++ kv.2))

def showErr : Err → String
  | .unsupported => "unsupported" | .valueError => "valueError" | .typeError => "typeError" | .keyError => "keyError"

def version? (s : String) : Option VersionTable :=
  match s.toNat? with
  | none => none
  | some v => Versions.all.find? (fun vt => vt.version == v)

def tableOf (vt : VersionTable) (kind : String) : Option (Table × Bool) :=
  if kind == "e" then some (vt.effects, true) else if kind == "c" then some (vt.conditions, false) else none

def ctxOf (isEffect : Bool) (w : Nat) : Ctx := if isEffect then Helpers.ctxE w else Helpers.ctxC

def classNamed? (s : String) : Option ClassLinks :=
  match idOf? s with
  | none => none
  | some i => Links.classes.find? (fun c => c.cls == i)

end Driver.V
