/-!
Line-protocol plumbing shared by the per-property drivers: one command line in, exactly one observation
line out. No Mathlib, no library imports beyond core, so every driver links as a plain `lean_exe`.
-/
namespace Driver

/-- words of a command line (single spaces or runs of spaces) -/
def words (line : String) : List String :=
  (line.splitOn " ").filter (fun w => w ≠ "")

def parseInt? (s : String) : Option Int := s.toInt?

/-- `None` or an integer -/
def parseOptInt? (s : String) : Option (Option Int) :=
  if s == "None" then some none else (s.toInt?).map some

def showOptInt : Option Int → String
  | none => "None"
  | some v => toString v

/-- comma separated integer list; the empty list is written `-` -/
def parseIntList? (s : String) : Option (List Int) :=
  if s == "-" then some [] else (s.splitOn ",").mapM (fun w => w.toInt?)

def showIntList (l : List Int) : String :=
  if l.isEmpty then "-" else ",".intercalate (l.map toString)

def parseNatList? (s : String) : Option (List Nat) :=
  if s == "-" then some [] else (s.splitOn ",").mapM (fun w => w.toNat?)

def showNatList (l : List Nat) : String :=
  if l.isEmpty then "-" else ",".intercalate (l.map toString)

/-- strip the trailing newline (and a carriage return) of a line read from stdin -/
def chomp (s : String) : String :=
  let s := if s.endsWith "\n" then (s.dropEnd 1).toString else s
  if s.endsWith "\r" then (s.dropEnd 1).toString else s

/-- read lines until EOF, thread a state, print one answer per line -/
partial def loop {σ : Type} (step : σ → String → σ × String) (s : σ) : IO Unit := do
  let stdin ← IO.getStdin
  let stdout ← IO.getStdout
  let rec go (s : σ) : IO Unit := do
    let line ← stdin.getLine
    if line.isEmpty then
      stdout.flush
      return ()
    let (s', out) := step s (chomp line)
    stdout.putStrLn out
    go s'
  go s

end Driver
