import Driver.Common
import Aoe.Model.Dirty
import Std.Data.HashMap
/-!
Driver for C18 (model `Aoe.Model.Dirty`).  One scenario at a time; names are interned in order of first use.
Values: `None`, `i:<int>`, `t:<token>` (token = any text without blanks).

  reset allow=<0|1> fixed=<0|1>          → ok            new empty scenario, empty commit program
  field <name> <val>                     → ok            declare a loaded (unmarked) plain retriever
  list <L> <n>                           → ok            declare a loaded struct list with n records (no fields yet)
  lfield <L> <f> <default>               → ok            add retriever f (with its struct-model default) to every record of L
  lrec <L> <i> <f> <val>                 → ok | error    loaded value of retriever f of record i
  lcol <L> <f> <v0>|<v1>|…               → ok | error    loaded values of retriever f of all records (one per record)
  prog plain <slot> <field>              → ok            append a plain link to the commit program
  prog objs <L> <t>:<len|sqrt>,… | -     → ok            append an object-list link with its REFRESH targets
  mgr <slot> <val>                       → ok            Op.mgrSet
  mobjs <L> <o>|<o>|… | -                → ok            Op.mgrObjs; object = f=val,f=val… or . (no plain links)
  user <field> <val>                     → ok            Op.userSet     (sections[X].field = val)
  urec <L> <i> <f> <val>                 → ok | error    Op.userRec     (sections[X].L[i].f = val)
  ulist <L> <k,k,…|->                    → ok | error    Op.userList    (sections[X].L = [L[k] …])
  save                                   → ok | error    Op.save
  get <field>                            → <val> dirty=<0|1> | absent
  len <L>                                → <n|None> dirty=<0|1> | absent
  rget <L> <i> <f>                       → <val> dirty=<0|1> | absent
-/
open Driver Aoe.Dirty

structure St where
  names : Std.HashMap String Nat := {}
  cfg : Cfg := { allow := false, fixed := false, prog := [], dflt := fun _ _ => none }
  scn : Scn := { plain := fun _ => none, lists := fun _ => none, mgr := fun _ => none, mobjs := fun _ => [] }

def intern (st : St) (n : String) : St × Nat :=
  match st.names[n]? with
  | some i => (st, i)
  | none => ({ st with names := st.names.insert n st.names.size }, st.names.size)

def parseVal? (w : String) : Option (Option Val) :=
  if w == "None" then some none
  else if w.startsWith "i:" then ((w.drop 2).toString.toInt?).map (fun i => some (Val.int i))
  else if w.startsWith "t:" then some (some (Val.tok (w.drop 2).toString))
  else none

def parseVal1? (w : String) : Option Val := (parseVal? w).bind id

def showVal : Option Val → String
  | none => "None"
  | some (.int i) => s!"i:{i}"
  | some (.tok s) => s!"t:{s}"

def showCell (c : Cell Val) : String := s!"{showVal c.data} dirty={if c.dirty then 1 else 0}"

def flag? (w pre : String) : Option Bool :=
  if w == pre ++ "1" then some true else if w == pre ++ "0" then some false else none

/-- thread interning through a list of `name=val` pairs -/
def parseObj (st : St) (w : String) : Option (St × MObj) :=
  if w == "." then some (st, []) else
  (w.splitOn ",").foldlM (fun (acc : St × MObj) kv =>
    match kv.splitOn "=" with
    | [k, v] => (parseVal1? v).map (fun v => let (st', i) := intern acc.1 k; (st', acc.2 ++ [(i, v)]))
    | _ => none) (st, [])

def parseObjs (st : St) (w : String) : Option (St × List MObj) :=
  if w == "-" then some (st, []) else
  (w.splitOn "|").foldlM (fun (acc : St × List MObj) o =>
    (parseObj acc.1 o).map (fun (st', ob) => (st', acc.2 ++ [ob]))) (st, [])

def parseRefresh (st : St) (w : String) : Option (St × List (Field × Deriv)) :=
  if w == "-" then some (st, []) else
  (w.splitOn ",").foldlM (fun (acc : St × List (Field × Deriv)) td =>
    match td.splitOn ":" with
    | [t, "len"] => let (st', i) := intern acc.1 t; some (st', acc.2 ++ [(i, Deriv.len)])
    | [t, "sqrt"] => let (st', i) := intern acc.1 t; some (st', acc.2 ++ [(i, Deriv.sqrtLen)])
    | _ => none) (st, [])

/-- representation change only: re-tabulate the finite maps over the interned names (`0 … names.length-1`), so that
look-ups do not walk through one closure per earlier update. Extensionally the same functions.
(The tables are built as data first and only then wrapped into look-up closures: a definition that *returns* a
function is eta-expanded by the compiler and would rebuild its table on every call.) -/
@[noinline] def lookupArr {α : Type} (arr : Array (Option α)) (k : Nat) : Option α := (arr[k]?).join

@[noinline] def mkTab {α : Type} (n : Nat) (f : Nat → Option α) : Array (Option α) := (Array.range n).map f

def pickRec (p : Option (Array (Option (Cell Val))) × Rec) (k : Nat) : Option (Cell Val) :=
  match p.1 with
  | some a => lookupArr a k
  | none => p.2 k

def compact (st : St) : St :=
  let n := st.names.size
  let s := st.scn
  let pa := mkTab n s.plain
  let ma := mkTab n s.mgr
  -- stage 1 (data): the table of every record; records of long lists (terrain of a full-size map) keep their few
  -- closure layers instead
  let la : Array (Option (Cell (List (Option (Array (Option (Cell Val))) × Rec)))) :=
    mkTab n (fun l => (s.lists l).map (fun c =>
      { data := c.data.map (fun recs =>
          if recs.length ≤ 64 then recs.map (fun r => (some (mkTab n r), r)) else recs.map (fun r => (none, r))),
        dirty := c.dirty }))
  -- stage 2: wrap the evaluated tables into look-up closures
  let la' : Array (Option (Cell (List Rec))) :=
    la.map (fun o => o.map (fun c => { data := c.data.map (fun ps => ps.map pickRec), dirty := c.dirty }))
  { st with scn := { s with plain := lookupArr pa, lists := lookupArr la', mgr := lookupArr ma } }

def doOp (st : St) (op : Op) : St × String :=
  match step st.cfg st.scn op with
  | .ok s => ({ st with scn := s }, "ok")
  | .error _ => (st, "error")

def stepLine (st : St) (line : String) : St × String :=
  match words line with
  | ["reset", a, f] =>
    match flag? a "allow=", flag? f "fixed=" with
    | some a, some f => ({ cfg := { allow := a, fixed := f, prog := [], dflt := fun _ _ => none } }, "ok")
    | _, _ => (st, "bad-op")
  | ["field", n, v] =>
    match parseVal1? v with
    | some v =>
      let (st, i) := intern st n
      ({ st with scn := { st.scn with plain := recSet st.scn.plain i { data := some v, dirty := false } } }, "ok")
    | none => (st, "bad-op")
  | ["list", l, n] =>
    match n.toNat? with
    | some n =>
      let (st, i) := intern st l
      ({ st with scn := { st.scn with lists := listSet st.scn.lists i { data := some (List.replicate n (fun _ => none)), dirty := false } } }, "ok")
    | none => (st, "bad-op")
  | ["lfield", l, f, d] =>
    match parseVal1? d with
    | some d =>
      let (st, li) := intern st l
      let (st, fi) := intern st f
      match st.scn.lists li with
      | some c =>
        let cell : Cell Val := { data := some d, dirty := false }
        let dflt := st.cfg.dflt
        let cfg := { st.cfg with dflt := fun k => if k = li then recSet (dflt k) fi cell else dflt k }
        let c' := { c with data := c.data.map (fun recs => recs.map (fun r => recSet r fi cell)) }
        ({ st with cfg := cfg, scn := { st.scn with lists := listSet st.scn.lists li c' } }, "ok")
      | none => (st, "error")
    | none => (st, "bad-op")
  | ["lrec", l, i, f, v] =>
    match i.toNat?, parseVal1? v with
    | some i, some v =>
      let (st, li) := intern st l
      let (st, fi) := intern st f
      match st.scn.lists li with
      | some c =>
        match c.data.bind (·[i]?) with
        | some r =>
          let c' := { c with data := c.data.map (fun recs => recs.set i (recSet r fi { data := some v, dirty := false })) }
          ({ st with scn := { st.scn with lists := listSet st.scn.lists li c' } }, "ok")
        | none => (st, "error")
      | none => (st, "error")
    | _, _ => (st, "bad-op")
  | ["lcol", l, f, vs] =>
    match (vs.splitOn "|").mapM parseVal1? with
    | some vals =>
      let (st, li) := intern st l
      let (st, fi) := intern st f
      match st.scn.lists li with
      | some c =>
        match c.data with
        | some recs =>
          if recs.length = vals.length then
            let recs' := List.zipWith (fun r v => recSet r fi { data := some v, dirty := false }) recs vals
            ({ st with scn := { st.scn with lists := listSet st.scn.lists li { c with data := some recs' } } }, "ok")
          else (st, "error")
        | none => (st, "error")
      | none => (st, "error")
    | none => (st, "bad-op")
  | ["prog", "plain", slot, f] =>
    match slot.toNat? with
    | some slot =>
      let (st, fi) := intern st f
      ({ st with cfg := { st.cfg with prog := st.cfg.prog ++ [Push.plain slot fi] } }, "ok")
    | none => (st, "bad-op")
  | ["prog", "objs", l, r] =>
    let (st, li) := intern st l
    match parseRefresh st r with
    | some (st, refresh) => ({ st with cfg := { st.cfg with prog := st.cfg.prog ++ [Push.objs li refresh] } }, "ok")
    | none => (st, "bad-op")
  | ["mgr", slot, v] =>
    match slot.toNat?, parseVal1? v with
    | some slot, some v => doOp st (.mgrSet slot v)
    | _, _ => (st, "bad-op")
  | ["mobjs", l, o] =>
    let (st, li) := intern st l
    match parseObjs st o with
    | some (st, objs) => doOp st (.mgrObjs li objs)
    | none => (st, "bad-op")
  | ["user", f, v] =>
    match parseVal? v with
    | some v => let (st, fi) := intern st f; doOp st (.userSet fi v)
    | none => (st, "bad-op")
  | ["urec", l, i, f, v] =>
    match i.toNat?, parseVal? v with
    | some i, some v =>
      let (st, li) := intern st l
      let (st, fi) := intern st f
      doOp st (.userRec li i fi v)
    | _, _ => (st, "bad-op")
  | ["ulist", l, ks] =>
    match parseNatList? ks with
    | some ks =>
      let (st, li) := intern st l
      match st.scn.lists li with
      | some c =>
        match c.data with
        | some recs =>
          match ks.mapM (fun k => recs[k]?) with
          | some recs' => doOp st (.userList li (some recs'))
          | none => (st, "error")
        | none => (st, "error")
      | none => doOp st (.userList li (some []))
    | none => (st, "bad-op")
  | ["save"] => let (st, r) := doOp (compact st) .save; (compact st, r)
  | ["get", f] =>
    let (st, fi) := intern st f
    match st.scn.plain fi with
    | some c => (st, showCell c)
    | none => (st, "absent")
  | ["len", l] =>
    let (st, li) := intern st l
    match st.scn.lists li with
    | some c =>
      (st, s!"{match c.data with | some recs => toString recs.length | none => "None"} dirty={if c.dirty then 1 else 0}")
    | none => (st, "absent")
  | ["rget", l, i, f] =>
    match i.toNat? with
    | some i =>
      let (st, li) := intern st l
      let (st, fi) := intern st f
      match (savedRecs st.scn li).bind (·[i]?) with
      | some r =>
        match r fi with
        | some c => (st, showCell c)
        | none => (st, "absent")
      | none => (st, "absent")
    | none => (st, "bad-op")
  | _ => (st, "bad-op")

def main : IO Unit := loop stepLine {}
