import Driver.MapCommon
/-!
Driver for C11 (map geometry).  Commands beyond `Driver/MapCommon.lean` (→ answers):
  get <x|None> <y|None> <i|None>   → pos=<k> tile=<tid:elev:layer:i:x:y> | error       (`get_tile`)
  sq1 <x1> <y1> <x2> <y2>          → ok <tile.i,…> | error                              (`get_square_1d`)
  sq2 <x1> <y1> <x2> <y2>          → ok rows=<n> <tile.i,…|tile.i,…> | error            (`get_square_2d`)
  xytoi <x> <y> <size>             → <i> | error                                        (`xy_to_i`)
  itoxy <i> <size>                 → <x> <y> | error                                    (`i_to_xy`)
-/
open Driver Aoe.Map MapDrv

def showIdx (l : List Tile) : String := showIntList (l.map (·.index))

def step (s : St) (line : String) : St × String :=
  match stepCommon s line with
  | some r => r
  | none =>
  match words line with
  | ["get", x, y, i] =>
    match parseOptInt? x, parseOptInt? y, parseOptInt? i with
    | some x, some y, some i =>
      match getPos s.fixIdx s.m x y i, getTile s.fixIdx s.m x y i with
      | .ok k, .ok t => (s, s!"pos={k} tile={showTile s.m t}")
      | _, _ => (s, "error")
    | _, _, _ => (s, "bad-op")
  | ["sq1", a, b, c, d] =>
    match parseInt? a, parseInt? b, parseInt? c, parseInt? d with
    | some a, some b, some c, some d =>
      match square1d s.m a b c d with
      | .ok l => (s, "ok " ++ showIdx l)
      | .error _ => (s, "error")
    | _, _, _, _ => (s, "bad-op")
  | ["sq2", a, b, c, d] =>
    match parseInt? a, parseInt? b, parseInt? c, parseInt? d with
    | some a, some b, some c, some d =>
      match square2d s.m a b c d with
      | .ok rows => (s, s!"ok rows={rows.length} " ++ "|".intercalate (rows.map showIdx))
      | .error _ => (s, "error")
    | _, _, _, _ => (s, "bad-op")
  | ["xytoi", x, y, n] =>
    match parseInt? x, parseInt? y, n.toNat? with
    | some x, some y, some n =>
      match xyToI x y n with
      | .ok k => (s, toString k)
      | .error _ => (s, "error")
    | _, _, _ => (s, "bad-op")
  | ["itoxy", i, n] =>
    match parseInt? i, n.toNat? with
    | some i, some n =>
      match iToXY i n with
      | .ok (x, y) => (s, s!"{x} {y}")
      | .error _ => (s, "error")
    | _, _ => (s, "bad-op")
  | _ => (s, "bad-op")

def main : IO Unit := loop step init
