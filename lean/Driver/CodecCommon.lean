import Driver.Common
import Aoe.Model.Codec
import Aoe.Generated.Tables
import Aoe.Model.Commit
import Aoe.Generated.MgrTables
/-!
Shared driver state and commands for the structure-codec properties (C01, C02, C04, C12 …).

Canonical value text (also produced by `harness/codec_common.py` from the library's sections):
  int `i<dec>` · float `f<hex of raw bytes>` · bytes `d<hex>` · str `s<hex of UTF-8>` · None `N` · list `[a,b]` · struct `{a,b}`

Commands:
  table <version>                 → ok sections=<n> | error
  hdr <hex of raw file>           → ok consumed=<n> | error <kind>
  body <hex of inflated body>     → ok rest=<n> eof=<val> consistent=<bool> | error <kind>
  dump                            → H{…} B[{…},…]
  get <path>                      → <val>            path: h.<i>… or b.<sec>.<i>… with [k] list steps
  set <path> <val>                → ok | error
  ser                             → ok hdr=<hex> body=<hex> | error <kind>
  consistent                      → true | false
  defaults                        → ok            (tree := the table's defaults)
  settree H{…} B[…]               → ok            (tree := the given canonical text)
  commit [mgr0,mgr1,…]            → ok | error <kind>   (M4: commit the managers' pushed values into the tree)
  construct                       → [mgr0,…]            (M4: what the managers' constructors receive)
-/
open Aoe Aoe.Codec Aoe.Bytes

namespace Driver

def hexDigit (n : Nat) : Char := if n < 10 then Char.ofNat (48 + n) else Char.ofNat (87 + n)

def hexOf (bs : Bytes) : String :=
  String.ofList (bs.foldr (fun b acc => hexDigit (b.toNat / 16) :: hexDigit (b.toNat % 16) :: acc) [])

def unhexDigit (c : Char) : Option Nat :=
  if '0' ≤ c ∧ c ≤ '9' then some (c.toNat - 48)
  else if 'a' ≤ c ∧ c ≤ 'f' then some (c.toNat - 87)
  else if 'A' ≤ c ∧ c ≤ 'F' then some (c.toNat - 55)
  else none

partial def unhexL : List Char → List UInt8 → Option Bytes
  | [], acc => some acc.reverse
  | a :: b :: r, acc =>
    match unhexDigit a, unhexDigit b with
    | some x, some y => unhexL r (UInt8.ofNat (x * 16 + y) :: acc)
    | _, _ => none
  | _, _ => none

def unhex (s : String) : Option Bytes := if s == "-" then some [] else unhexL s.toList []

def hexOrDash (bs : Bytes) : String := if bs.isEmpty then "-" else hexOf bs

partial def showVal : Val → String
  | .int i => s!"i{i}"
  | .flt b => "f" ++ hexOf b
  | .data b => "d" ++ hexOf b
  | .str b => "s" ++ hexOf b
  | .none => "N"
  | .list vs => "[" ++ ",".intercalate (vs.map showVal) ++ "]"
  | .strct vs => "{" ++ ",".intercalate (vs.map showVal) ++ "}"

/-- recursive-descent parser of the canonical value text -/
partial def parseVal : List Char → Option (Val × List Char)
  | 'N' :: r => some (.none, r)
  | 'i' :: r =>
    let (num, rest) := r.span (fun c => c.isDigit || c == '-')
    (String.ofList num).toInt?.map (fun i => (.int i, rest))
  | 'f' :: r => let (h, rest) := r.span Char.isAlphanum; (unhexL h []).map (fun b => (.flt b, rest))
  | 'd' :: r => let (h, rest) := r.span Char.isAlphanum; (unhexL h []).map (fun b => (.data b, rest))
  | 's' :: r => let (h, rest) := r.span Char.isAlphanum; (unhexL h []).map (fun b => (.str b, rest))
  | '[' :: r => (parseSeq r ']' []).map (fun (vs, rest) => (.list vs, rest))
  | '{' :: r => (parseSeq r '}' []).map (fun (vs, rest) => (.strct vs, rest))
  | _ => none
where
  parseSeq : List Char → Char → List Val → Option (List Val × List Char)
    | c :: r, close, acc =>
      if c == close then some (acc.reverse, r)
      else if c == ',' then parseSeq r close acc
      else match parseVal (c :: r) with
        | some (v, rest) => parseSeq rest close (v :: acc)
        | none => none
    | [], _, _ => none

def readVal (s : String) : Option Val :=
  match parseVal s.toList with
  | some (v, []) => some v
  | _ => none

def showErr : Err → String
  | .eof => "eof" | .overflow => "overflow" | .value => "value" | .type => "type" | .attr => "attr" | .shape => "shape"

inductive Step | fld (i : Nat) | idx (i : Nat)

/-- path syntax: `3[0].15[1].3` → fld 3, idx 0, fld 15, idx 1, fld 3 -/
partial def parseSteps (s : String) : Option (List Step) :=
  let rec go (cs : List Char) (acc : List Step) : Option (List Step) :=
    match cs with
    | [] => some acc.reverse
    | '.' :: r => go r acc
    | '[' :: r =>
      let (d, rest) := r.span Char.isDigit
      match (String.ofList d).toNat?, rest with
      | some n, ']' :: rest' => go rest' (.idx n :: acc)
      | _, _ => none
    | c :: r =>
      if c.isDigit then
        let (d, rest) := (c :: r).span Char.isDigit
        match (String.ofList d).toNat? with
        | some n => go rest (.fld n :: acc)
        | none => none
      else none
  go s.toList []

partial def getPath : Val → List Step → Option Val
  | v, [] => some v
  | .strct vs, .fld i :: r => vs[i]?.bind (getPath · r)
  | .list vs, .idx i :: r => vs[i]?.bind (getPath · r)
  | _, _ => none

partial def setPath : Val → List Step → Val → Option Val
  | _, [], x => some x
  | .strct vs, .fld i :: r, x =>
    match vs[i]? with
    | some v => (setPath v r x).map (fun v' => .strct (vs.set i v'))
    | none => none
  | .list vs, .idx i :: r, x =>
    match vs[i]? with
    | some v => (setPath v r x).map (fun v' => .list (vs.set i v'))
    | none => none
  | _, _, _ => none

structure CState where
  version : String := ""
  table : Option Table := none
  tree : Tree := { header := [], body := [] }

/-- split `h.<rest>` / `b.<sec>.<rest>` -/
def rootOf (st : CState) (path : String) : Option (Val × List Step × (Val → CState)) :=
  if path.startsWith "h." || path == "h" then
    (parseSteps (path.drop 1).toString).map (fun steps =>
      (.strct st.tree.header, steps, fun v => match v with
        | .strct vs => { st with tree := { st.tree with header := vs } }
        | _ => st))
  else if path.startsWith "b." then
    (parseSteps (path.drop 1).toString).bind (fun steps =>
      match steps with
      | .fld s :: rest => some (.list st.tree.body, .idx s :: rest, fun v => match v with
          | .list vs => { st with tree := { st.tree with body := vs } }
          | _ => st)
      | _ => none)
  else none

/-- first top-level field whose consistency check fails: `(section index (0 = header), field index)` -/
def firstBadRec (fs : List (Nat × FCodec)) (γ : Env) (vs : List Val) (i : Nat) : Option Nat :=
  match fs, vs with
  | [], [] => none
  | (nm, f) :: fs, v :: vs => if f.okB γ v then firstBadRec fs (γ.push true nm v) vs (i + 1) else some i
  | _, _ => some i

def firstBad (t : Table) (tr : Tree) : String :=
  match firstBadRec t.header.fields {} tr.header 0 with
  | some i => s!"h.{i}"
  | none =>
    let rec go (ss : List Section) (done : List (Nat × Rec)) (ts : List Val) (k : Nat) : String :=
      match ss, ts with
      | [], [] => "none"
      | s :: ss, .strct vs :: ts =>
        match firstBadRec s.fields { secs := done, root := [], self := [] } vs 0 with
        | some i => s!"b.{k}.{i} ({Aoe.Generated.nameOf s.name}.{(s.fields[i]?.map (fun p => Aoe.Generated.nameOf p.1)).getD "?"})"
        | none => go ss (done ++ [(s.name, mkRec s.fields vs)]) ts (k + 1)
      | _, _ => s!"b.{k} shape"
    go t.body [(t.header.name, mkRec t.header.fields tr.header)] tr.body 0

def codecStep (st : CState) (ws : List String) : Option (CState × String) :=
  match ws with
  | ["table", v] =>
    match Aoe.Generated.tableOf v with
    | some t => some ({ version := v, table := some t, tree := { header := [], body := [] } }, s!"ok sections={t.body.length + 1}")
    | none => some (st, "error unknown-version")
  | ["hdr", h] =>
    match st.table, unhex h with
    | some t, some raw =>
      match parseHeader t raw with
      | .ok (vs, rest) => some ({ st with tree := { header := vs, body := [] } }, s!"ok consumed={raw.length - rest.length}")
      | .error e => some (st, "error " ++ showErr e)
    | _, _ => some (st, "bad-op")
  | ["body", h] =>
    match st.table, unhex h with
    | some t, some bs =>
      match parseBody t st.tree.header bs with
      | .ok (ts, m, rest) =>
        let tr : Tree := { header := st.tree.header, body := ts, eofMark := m }
        some ({ st with tree := tr }, s!"ok rest={rest.length} eof={showVal m} consistent={consistentB t tr}")
      | .error e => some (st, "error " ++ showErr e)
    | _, _ => some (st, "bad-op")
  | ["dump"] => some (st, "H" ++ showVal (.strct st.tree.header) ++ " B" ++ showVal (.list st.tree.body))
  | ["get", p] =>
    match rootOf st p with
    | some (root, steps, _) =>
      match getPath root steps with
      | some v => some (st, showVal v)
      | none => some (st, "error no-such-path")
    | none => some (st, "bad-op")
  | ["set", p, x] =>
    match rootOf st p, readVal x with
    | some (root, steps, put), some v =>
      match setPath root steps v with
      | some root' => some (put root', "ok")
      | none => some (st, "error no-such-path")
    | _, _ => some (st, "bad-op")
  | ["ser"] =>
    match st.table with
    | some t =>
      match serializeHeader t st.tree, serializeBody t st.tree with
      | .ok h, .ok b => some (st, s!"ok hdr={hexOrDash h} body={hexOrDash b}")
      | .error e, _ => some (st, "error " ++ showErr e)
      | _, .error e => some (st, "error " ++ showErr e)
    | none => some (st, "bad-op")
  | ["commit", m] =>
    -- m = canonical list of the manager objects (pushed values in link order), managers in `reconstruct` order
    match st.table, Aoe.Generated.mgrOf st.version, readVal m with
    | some _, some (classes, managers, secNames), some (.list objs) =>
      let secs : Aoe.Commit.Sections := { names := secNames, recs := (Val.strct st.tree.header) :: st.tree.body }
      match Aoe.Commit.commitAll classes managers objs secs with
      | .ok s' =>
        match s'.recs with
        | .strct h :: b => some ({ st with tree := { st.tree with header := h, body := b } }, "ok")
        | _ => some (st, "error shape")
      | .error e => some (st, "error " ++ showErr e)
    | _, _, _ => some (st, "bad-op")
  | ["construct"] =>
    match Aoe.Generated.mgrOf st.version with
    | some (classes, managers, secNames) =>
      let secs : Aoe.Commit.Sections := { names := secNames, recs := (Val.strct st.tree.header) :: st.tree.body }
      match managers.mapM (fun m => Aoe.Commit.constructObj classes 4 m [] secs) with
      | .ok os => some (st, showVal (.list os))
      | .error e => some (st, "error " ++ showErr e)
    | none => some (st, "bad-op")
  | ["whybad"] =>
    match st.table with
    | some t => some (st, firstBad t st.tree)
    | none => some (st, "bad-op")
  | ["consistent"] =>
    match st.table with
    | some t => some (st, toString (consistentB t st.tree))
    | none => some (st, "bad-op")
  | ["settree", h, b] =>
    match readVal (h.drop 1).toString, readVal (b.drop 1).toString with
    | some (.strct hv), some (.list bv) => some ({ st with tree := { header := hv, body := bv } }, "ok")
    | _, _ => some (st, "bad-op")
  | ["defaults"] =>
    match Aoe.Generated.defaultsOf st.version with
    | some (h :: b) => some ({ st with tree := { header := h, body := b.map Val.strct } }, "ok")
    | _ => some (st, "bad-op")
  | _ => none

end Driver
