import Driver.Common
import Aoe.Model.Render
import Aoe.Generated.Presentation
/-!
Driver for C19 (rendering).  The driver keeps one manager model (triggers with conditions/effects, display order,
variables), the world around it (registered scenario or detached, unit reference ids) and the behaviour switches.

  version <v>                                  → ok e=<#effect types> c=<#condition types>      | error
  fix <trig> <condName> <presDefault> <aaSkip> → ok                 (0/1 each; 0 0 0 0 = pinned tree)
  world live=<0|1> units=<ints|->              → ok
  mclear                                       → ok
  tnew <hexname>                               → ok                 (append a trigger)
  tcond <type> <attr>=<val> …                  → ok                 (append a condition to the last trigger)
  teff <type> <src> <attr>=<val> …             → ok                 (src: n | q | v  = armour/attack source)
  torder c=<ints|-> e=<ints|->                 → ok                 (order arrays of the last trigger)
  morder <ints|->                              → ok
  mvars <id>:<hexname>,… | -                   → ok
  eff <str|content> <type> <src> <attr>=<val> … → ok | raised <kind>   (rendered against the current manager/world)
  cond <str|content> <type> <attr>=<val> …      → ok | raised <kind>
  trigger <pos>                                → ok | raised <kind>   (`Trigger.get_content_as_string`)
  content                                      → ok <hexname>:<index>:<display>,… | ok - | raised <kind>
  summary                                      → ok <hexname>:<index>:<display>,… | ok - | raised <kind>

Values: `i<int>`, `l<ints|->`, `s<hex>`, `n`.  Attributes are the interned ids of gen/presentation.json; an attribute
that is not mentioned holds the integer −1 (the harness leaves out exactly those).  Dataset membership (`Env.member`)
is not observable in `ok | raised`; the driver instantiates it with `false`.
-/
open Driver Aoe.Render

structure St where
  te : Table
  tc : Table
  fx : Fix
  live : Bool
  units : List Int
  mgr : Mgr

def hexVal (c : Char) : Option Nat :=
  if '0' ≤ c ∧ c ≤ '9' then some (c.toNat - '0'.toNat)
  else if 'a' ≤ c ∧ c ≤ 'f' then some (c.toNat - 'a'.toNat + 10)
  else none

def hexBytes : List Char → Option (List UInt8)
  | [] => some []
  | [_] => none
  | a :: b :: rest => do
    let x ← hexVal a
    let y ← hexVal b
    let r ← hexBytes rest
    pure (UInt8.ofNat (x * 16 + y) :: r)

/-- hex of UTF-8 → string; `-` is the empty string -/
def unhex (s : String) : Option String :=
  if s == "-" then some "" else
  match hexBytes s.toList with
  | some bs => String.fromUTF8? (ByteArray.mk bs.toArray)
  | none => none

def hexDigit (n : Nat) : Char := if n < 10 then Char.ofNat (48 + n) else Char.ofNat (87 + n)

def hex (s : String) : String :=
  if s.isEmpty then "-" else
  String.ofList (s.toUTF8.toList.flatMap fun b => [hexDigit (b.toNat / 16), hexDigit (b.toNat % 16)])

def parseVal (s : String) : Option Val :=
  match s.toList with
  | 'i' :: r => (String.ofList r).toInt?.map Val.int
  | 'l' :: r => (parseIntList? (String.ofList r)).map Val.list
  | 's' :: r => (unhex (if r.isEmpty then "-" else String.ofList r)).map Val.str
  | ['n'] => some Val.none
  | _ => none

def parseAttr (w : String) : Option (Nat × Val) :=
  match w.splitOn "=" with
  | [a, v] => do
    let a ← a.toNat?
    let v ← parseVal v
    pure (a, v)
  | _ => none

def parseSrc : String → Option AASrc
  | "n" => some .none | "q" => some .quantity | "v" => some .variable | _ => none

def kv (w pre : String) : Option String :=
  if w.startsWith pre then some (w.drop pre.length).toString else none

def showErr : Err → String
  | .keyError => "keyError" | .attributeError => "attributeError" | .indexError => "indexError"
  | .typeError => "typeError" | .valueError => "valueError"

def world (s : St) : World := { live := s.live, units := s.units, member := fun _ _ => false }

def showTriples (l : List Triple) : String :=
  if l.isEmpty then "-" else ",".intercalate (l.map fun t => s!"{hex t.1}:{t.2.1}:{t.2.2}")

def parseVars (s : String) : Option (List (Int × String)) :=
  if s == "-" then some [] else
  (s.splitOn ",").mapM fun w =>
    match w.splitOn ":" with
    | [i, n] => do
      let i ← i.toInt?
      let n ← unhex n
      pure (i, n)
    | _ => none

def modLast (m : Mgr) (f : Trig → Trig) : Option Mgr :=
  match m.trigs.reverse with
  | [] => none
  | t :: rest => some { m with trigs := (f t :: rest).reverse }

def answer {α : Type} (r : Except Err α) (f : α → String) : String :=
  match r with
  | .ok a => f a
  | .error e => "raised " ++ showErr e

def step (s : St) (line : String) : St × String :=
  match words line with
  | ["version", v] =>
    match Aoe.Generated.Presentation.versions.find? (fun e => e.1 == v) with
    | some (_, te, tc) => ({ s with te := te, tc := tc }, s!"ok e={te.attrs.length} c={tc.attrs.length}")
    | none => (s, "error")
  | ["fix", a, b, c, d] =>
    match a.toNat?, b.toNat?, c.toNat?, d.toNat? with
    | some a, some b, some c, some d => ({ s with fx := ⟨a != 0, b != 0, c != 0, d != 0⟩ }, "ok")
    | _, _, _, _ => (s, "bad-op")
  | ["world", l, u] =>
    match (kv l "live=").bind (·.toNat?), (kv u "units=").bind parseIntList? with
    | some l, some u => ({ s with live := l != 0, units := u }, "ok")
    | _, _ => (s, "bad-op")
  | ["mclear"] => ({ s with mgr := ⟨[], [], []⟩ }, "ok")
  | ["tnew", n] =>
    match unhex n with
    | some n => ({ s with mgr := { s.mgr with trigs := s.mgr.trigs ++ [⟨n, [], [], [], []⟩] } }, "ok")
    | none => (s, "bad-op")
  | "tcond" :: ty :: attrs =>
    match ty.toInt?, attrs.mapM parseAttr with
    | some ty, some attrs =>
      match modLast s.mgr (fun t => { t with conds := t.conds ++ [mkObj s.tc.classAttrs ty .none attrs] }) with
      | some m => ({ s with mgr := m }, "ok")
      | none => (s, "error")
    | _, _ => (s, "bad-op")
  | "teff" :: ty :: src :: attrs =>
    match ty.toInt?, parseSrc src, attrs.mapM parseAttr with
    | some ty, some src, some attrs =>
      match modLast s.mgr (fun t => { t with effs := t.effs ++ [mkObj s.te.classAttrs ty src attrs] }) with
      | some m => ({ s with mgr := m }, "ok")
      | none => (s, "error")
    | _, _, _ => (s, "bad-op")
  | ["torder", c, e] =>
    match (kv c "c=").bind parseIntList?, (kv e "e=").bind parseIntList? with
    | some c, some e =>
      match modLast s.mgr (fun t => { t with condOrder := c, effOrder := e }) with
      | some m => ({ s with mgr := m }, "ok")
      | none => (s, "error")
    | _, _ => (s, "bad-op")
  | ["morder", o] =>
    match parseIntList? o with
    | some o => ({ s with mgr := { s.mgr with order := o } }, "ok")
    | none => (s, "bad-op")
  | ["mvars", v] =>
    match parseVars v with
    | some v => ({ s with mgr := { s.mgr with vars := v } }, "ok")
    | none => (s, "bad-op")
  | "eff" :: mode :: ty :: src :: attrs =>
    match ty.toInt?, parseSrc src, attrs.mapM parseAttr, mode == "str" || mode == "content" with
    | some ty, some src, some attrs, true =>
      let o := mkObj s.te.classAttrs ty src attrs
      (s, answer (renderObj s.fx s.te (envOf (world s) s.mgr) o (mode == "str")) fun out => s!"ok shown={out.lines.length}")
    | _, _, _, _ => (s, "bad-op")
  | "cond" :: mode :: ty :: attrs =>
    match ty.toInt?, attrs.mapM parseAttr, mode == "str" || mode == "content" with
    | some ty, some attrs, true =>
      let o := mkObj s.tc.classAttrs ty .none attrs
      (s, answer (renderObj s.fx s.tc (envOf (world s) s.mgr) o (mode == "str")) fun out => s!"ok shown={out.lines.length}")
    | _, _, _ => (s, "bad-op")
  | ["trigger", p] =>
    match p.toNat? with
    | some p =>
      match s.mgr.trigs[p]? with
      | some t => (s, answer (renderTrigger s.fx s.te s.tc (envOf (world s) s.mgr) t) fun out =>
          s!"ok conds={out.conds.length} effs={out.effs.length}")
      | none => (s, "error")
    | none => (s, "bad-op")
  | ["content"] => (s, answer (contentTriples s.fx s.te s.tc (world s) s.mgr) fun l => "ok " ++ showTriples l)
  | ["summary"] => (s, answer (summaryTriples s.mgr) fun l => "ok " ++ showTriples l)
  | _ => (s, "bad-op")

def emptyTable : Table :=
  { isEffect := false, attrs := [], names := [], pres := [], empty := [], classAttrs := [], hidden := 0, qtyAttr := 0,
    aaQ := 0, aaC := 0, difficulty := none, dispatch := [] }

def main : IO Unit :=
  loop step { te := emptyTable, tc := emptyTable, fx := Fix.asIs, live := false, units := [], mgr := ⟨[], [], []⟩ }
