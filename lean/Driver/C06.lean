import Driver.TrigCommon
/-! Driver for C06 (trigger links survive every structural operation): the shared trigger-manager command set. -/
def main : IO Unit := Driver.loop TrigDrv.step TrigDrv.St.init
