import Driver.Common
import Aoe.Model.Trig
/-!
Shared driver of C06 and C07 (one model, one command set).  One command line in, one observation line out.

  mode <F4 0|1> <F16 0|1> <F5 0|1>        → ok            (which recorded defects are repaired in the tree: model variant)
  reset                                   → ok            (a fresh empty manager, `tm.triggers = []`)
  init <n> <effs> <order|->               → OBS           (n × add, effects, then `trigger_display_order = order`)
  add                                     → OBS
  eff <i> <a|d|o><target>                 → OBS           (`triggers[i].new_effect.…(trigger_id=target)`)
  setorder <ids>                          → OBS
  copy <sel> <0|1>                        → OBS
  tree <sel>                              → OBS
  pp <sel> <from> <players|None> <gaia>   → OBS
  treepp <sel> <from> <players|None> <gaia> <none|trigger|player> → OBS
  import <index|-1> <trigs>               → OBS           (trigs: `tid:effs|tid:effs…`, `-` = empty list)
  move <ids> <k>                          → OBS
  reorder <ids|None>                      → OBS
  remove <sel,sel…|->                     → OBS
  get <sel>                               → OBS
  q <any of the above>                    → OBS without `order=` (the display order getter is not called)
  oa reset|append|rmat i|rmdisp d|rmobj p|setorder l   → ok | error
  oa obs                                  → ok items=<ids> order=<order>   (calls the order getter)

sel: `i<int>` (index), `d<nat>` (display index), `o<nat>` (the object at list position)
effs: per trigger `a1.d-1.o2` (`-` = no effects), triggers separated by `|`
OBS: `ok ids=… uids=… order=… eff=… ret=…` | `error`
  uids are object identities renumbered by first appearance (scan in list order after every command),
  ret lists `key:positions` of the returned objects in the resulting list (`x` = not in the list).
-/
open Driver Aoe.Trig

namespace TrigDrv

structure St where
  tm : TM
  fx : Fix
  ren : List (Nat × Nat)     -- model identity ↦ canonical number
  oa : OA
  oaRen : List (Nat × Nat)

def St.init : St := ⟨TM.empty, Fix.asIs, [], OA.empty, []⟩

def parseEff (w : String) : Option Eff :=
  let k := w.take 1
  let rest := (w.drop 1).toString
  let kind? : Option Kind := if k == "a" then some .act else if k == "d" then some .deact else if k == "o" then some .other else none
  match kind?, rest.toInt? with
  | some kd, some t => if t == -1 then some ⟨kd, none⟩ else if t ≥ 0 then some ⟨kd, some t.toNat⟩ else none
  | _, _ => none

def parseEffs (w : String) : Option (List Eff) :=
  if w == "-" || w == "" then some [] else (w.splitOn ".").mapM parseEff

def parseSel (w : String) : Option Sel :=
  let k := w.take 1
  let rest := (w.drop 1).toString
  if k == "i" then rest.toInt?.map Sel.index
  else if k == "d" then rest.toNat?.map Sel.display
  else if k == "o" then rest.toNat?.map Sel.obj
  else none

def parseSels (w : String) : Option (List Sel) :=
  if w == "-" then some [] else (w.splitOn ",").mapM parseSel

def parseTrigs (w : String) : Option (List Trig) :=
  if w == "-" then some [] else
  (w.splitOn "|").mapM (fun s =>
    match s.splitOn ":" with
    | [t, es] => match t.toNat?, parseEffs es with
      | some t, some es => some ⟨0, t, es⟩
      | _, _ => none
    | _ => none)

def parsePlayers (w : String) : Option (Option (List Nat)) :=
  if w == "None" then some none else (parseNatList? w).map some

def parseGroup (w : String) : Option Group :=
  if w == "none" then some .none else if w == "trigger" then some .trigger else if w == "player" then some .player else none

def showEff (e : Eff) : String :=
  (match e.kind with | .act => "a" | .deact => "d" | .other => "o") ++
  (match e.target with | none => "-1" | some k => toString k)

def showEffs (t : Trig) : String :=
  if t.effs.isEmpty then "-" else ".".intercalate (t.effs.map showEff)

/-- extend the renaming by the identities not seen before, in list order -/
def extendRen (ren : List (Nat × Nat)) : List Nat → List (Nat × Nat)
  | [] => ren
  | u :: us => if (ren.lookup u).isSome then extendRen ren us else extendRen (ren ++ [(u, ren.length)]) us

def canon (ren : List (Nat × Nat)) (u : Nat) : String :=
  match ren.lookup u with
  | some c => toString c
  | none => "?"

def showRet (tm : TM) (r : Ret) : String :=
  if r.isEmpty then "-" else
  ";".intercalate (r.map (fun kv => toString kv.1 ++ ":" ++
    (if kv.2.isEmpty then "-" else ",".intercalate (kv.2.map (fun u =>
      if (uids tm).contains u then toString ((uids tm).idxOf u) else "x")))))

/-- observation; `withOrder` calls the display order getter (which may resynchronise it) -/
def observe (s : St) (tm : TM) (r : Ret) (withOrder : Bool) : St × String :=
  let ren := extendRen s.ren (uids tm)
  let base := s!"ids={showNatList (tm.trigs.map (·.tid))} uids={",".intercalate ((uids tm).map (canon ren))}"
  let effs := "|".intercalate (tm.trigs.map showEffs)
  if withOrder then
    match readOrder tm with
    | .error _ => ({ s with tm := tm, ren := ren }, s!"ok {base} order=error eff={effs} ret={showRet tm r}")
    | .ok tm' => ({ s with tm := tm', ren := ren }, s!"ok {base} order={showNatList tm'.order} eff={effs} ret={showRet tm' r}")
  else ({ s with tm := tm, ren := ren }, s!"ok {base} eff={effs} ret={showRet tm r}")

def toNatIds (l : List Int) : Option (List Nat) :=
  if l.any (· < 0) then none else some (l.map Int.toNat)

/-- parse a command into an operation; `none` = not a command of the model; `some none` = the real code raises on
the argument check that happens before the model's operation (negative ids) -/
def parseOp (ws : List String) : Option (Option Op) :=
  match ws with
  | ["add"] => some (some .add)
  | ["eff", i, e] => match i.toNat?, parseEff e with
    | some i, some e => some (some (.addEff i e))
    | _, _ => none
  | ["setorder", l] => (parseNatList? l).map (fun o => some (.setOrder o))
  | ["copy", s, a] => match parseSel s, a.toNat? with
    | some s, some a => some (some (.copy s (a != 0)))
    | _, _ => none
  | ["tree", s] => (parseSel s).map (fun s => some (.copyTree s))
  | ["pp", s, f, ps, g] => match parseSel s, f.toNat?, parsePlayers ps, g.toNat? with
    | some s, some f, some ps, some g => some (some (.copyPP s f ps (g != 0)))
    | _, _, _, _ => none
  | ["treepp", s, f, ps, g, gr] => match parseSel s, f.toNat?, parsePlayers ps, g.toNat?, parseGroup gr with
    | some s, some f, some ps, some g, some gr => some (some (.copyTreePP s f ps (g != 0) gr))
    | _, _, _, _, _ => none
  | ["import", idx, ts] => match idx.toInt?, parseTrigs ts with
    | some idx, some ts =>
      if idx == -1 then some (some (.importT ts none)) else if idx ≥ 0 then some (some (.importT ts (some idx.toNat))) else none
    | _, _ => none
  | ["move", ids, k] => match parseIntList? ids, k.toNat? with
    | some ids, some k =>
      -- `min(trigger_ids) < 0` raises (`min([])` raises inside the model's `move`)
      match toNatIds ids with
      | some ids => some (some (.move ids k))
      | none => some none
    | _, _ => none
  | ["reorder", ids] =>
    if ids == "None" then some (some (.reorder none)) else
    match parseIntList? ids with
    | some ids => match toNatIds ids with
      | some ids => some (some (.reorder (some ids)))
      | none => some none
    | none => none
  | ["remove", ss] => (parseSels ss).map (fun ss => some (.remove ss))
  | ["get", s] => (parseSel s).map (fun s => some (.get s))
  | _ => none

def runOp (s : St) (ws : List String) (withOrder : Bool) : St × String :=
  match parseOp ws with
  | none => (s, "bad-op")
  | some none => (s, "error")
  | some (some op) =>
    match Aoe.Trig.step s.fx s.tm op with
    | .error _ => (s, "error")
    | .ok (tm, r) => observe s tm r withOrder

def buildInit (n : Nat) (effs : List (List Eff)) (order : Option (List Nat)) : Except Err TM :=
  let tm := (List.range n).foldl (fun tm _ => add tm) TM.empty
  let r := effs.zipIdx.foldlM (fun tm (es, i) => es.foldlM (fun tm e => addEff tm i e) tm) tm
  match r, order with
  | .ok tm, some o => .ok { tm with order := o }
  | r, _ => r

def showOA (s : St) (a : OA) : St × String :=
  let ren := extendRen s.oaRen a.items
  match a.read with
  | .error _ => ({ s with oa := a, oaRen := ren }, "error")
  | .ok a' => ({ s with oa := a', oaRen := ren },
      s!"ok items={",".intercalate (a'.items.map (canon ren))} order={showNatList a'.order}")

def oaStep (s : St) (op : OAOp) : St × String :=
  match s.oa.step op with
  | .error _ => (s, "error")
  | .ok a => ({ s with oa := a }, "ok")

def step (s : St) (line : String) : St × String :=
  match words line with
  | ["mode", a, b, c] =>
    match a.toNat?, b.toNat?, c.toNat? with
    | some a, some b, some c => ({ s with fx := ⟨a != 0, b != 0, c != 0⟩ }, "ok")
    | _, _, _ => (s, "bad-op")
  | ["reset"] => ({ s with tm := TM.empty, ren := [] }, "ok")
  | ["init", n, effs, order] =>
    match n.toNat?, (if effs == "-" then some [] else (effs.splitOn "|").mapM parseEffs),
          (if order == "-" then some none else (parseNatList? order).map some) with
    | some n, some effs, some order =>
      match buildInit n effs order with
      | .ok tm => observe { s with ren := [] } tm [] true
      | .error _ => (s, "error")
    | _, _, _ => (s, "bad-op")
  | ["oa", "reset"] => ({ s with oa := OA.empty, oaRen := [] }, "ok")
  | ["oa", "append"] => oaStep s .append
  | ["oa", "rmat", i] => match i.toNat? with | some i => oaStep s (.removeAt i) | none => (s, "bad-op")
  | ["oa", "rmdisp", d] => match d.toNat? with | some d => oaStep s (.removeDisplay d) | none => (s, "bad-op")
  | ["oa", "rmobj", p] => match p.toNat? with | some p => oaStep s (.removeObj p) | none => (s, "bad-op")
  | ["oa", "setorder", l] => match parseNatList? l with | some l => oaStep s (.setOrder l) | none => (s, "bad-op")
  | ["oa", "obs"] => showOA s s.oa
  | "q" :: ws => runOp s ws false
  | ws => runOp s ws true

end TrigDrv
