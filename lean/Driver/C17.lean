import Driver.Common
import Aoe.Model.AA
/-!
Driver for C17.  Commands (→ answers):
  family aa=<ints> pq=<ints> pv=<ints> attrs=<ints>      → ok
  split <k> <v>                                           → <class> <amount>
  merge <k> <c> <q>                                       → <v>
  source <et|None> <oa|None>                              → quantity | variable | none
  load <ge25:0|1> <et> <oa> <quantity|None> <varref>      → src=… class=… amount=… variable=… q=<stored|error> v=<stored|error>
  pair <ge25> <c> <a> <varref>                            → q=<stored> reload: class=… amount=…
  pairvar <ge25> <c> <v>                                  → v=<stored> reload: class=… variable=…
  setq <ge25> <et> <oa> <quantity|None> <varref> <newq>   → class=… amount=… q=<stored>
  retarget <ge25> <et0> <oa0> <et> <oa> <c> <a> <v>       → src=… q=<stored|error> v=<stored|error>
  seq <ge25> <et0> <oa0> <op;op;…>                        → src=… q=<stored|error> v=<stored|error>
      (ops: q<int> quantity setter, t<et>:<oa> effect_type and object_attributes setters, c<int> / a<int> / v<int>)
-/
open Driver Aoe.AA

def showSrc : Src → String
  | .quantity => "quantity" | .variable => "variable" | .none => "none"

def showExO : Except Err (Option Int) → String
  | .ok v => showOptInt v | .error _ => "error"
def showExI : Except Err Int → String
  | .ok v => toString v | .error _ => "error"

def kv (w pre : String) : Option String :=
  if w.startsWith pre then some (w.drop pre.length).toString else none

def step (f : Family) (line : String) : Family × String :=
  match words line with
  | ["family", a, b, c, d] =>
    match (kv a "aa=").bind parseIntList?, (kv b "pq=").bind parseIntList?, (kv c "pv=").bind parseIntList?,
          (kv d "attrs=").bind parseIntList? with
    | some a, some b, some c, some d => ({ aaEffects := a, partialQ := b, partialV := c, aaAttrs := d }, "ok")
    | _, _, _, _ => (f, "bad-op")
  | ["split", k, v] =>
    match k.toNat?, parseInt? v with
    | some k, some v => let r := split k v; (f, s!"{r.1} {r.2}")
    | _, _ => (f, "bad-op")
  | ["merge", k, c, q] =>
    match k.toNat?, parseInt? c, parseInt? q with
    | some k, some c, some q => (f, toString (merge k c q))
    | _, _, _ => (f, "bad-op")
  | ["source", et, oa] =>
    match parseOptInt? et, parseOptInt? oa with
    | some et, some oa => (f, showSrc (source f et oa))
    | _, _ => (f, "bad-op")
  | ["load", g, et, oa, q, v] =>
    match g.toNat?, parseOptInt? et, parseOptInt? oa, parseOptInt? q, parseInt? v with
    | some g, some et, some oa, some q, some v =>
      let k := width (g != 0)
      let e := ofStored k (source f et oa) q v
      (f, s!"src={showSrc e.src} class={showOptInt e.aaClass} amount={showOptInt e.aaQty} variable={e.var} q={showExO (storedQuantity k e)} v={showExI (storedVariable k e)}")
    | _, _, _, _, _ => (f, "bad-op")
  | ["pair", g, c, a, v] =>
    match g.toNat?, parseInt? c, parseInt? a, parseInt? v with
    | some g, some c, some a, some v =>
      let k := width (g != 0)
      let e := ofPair c a v
      match storedQuantity k e with
      | .ok (some q) =>
        let e' := ofStored k .quantity (some q) v
        (f, s!"q={q} reload: class={showOptInt e'.aaClass} amount={showOptInt e'.aaQty}")
      | _ => (f, "error")
    | _, _, _, _ => (f, "bad-op")
  | ["pairvar", g, c, v] =>
    match g.toNat?, parseInt? c, parseInt? v with
    | some g, some c, some v =>
      let k := width (g != 0)
      let e := ofPairVar c v none
      match storedVariable k e with
      | .ok r =>
        let e' := ofStored k .variable none r
        (f, s!"v={r} reload: class={showOptInt e'.aaClass} variable={e'.var}")
      | _ => (f, "error")
    | _, _, _ => (f, "bad-op")
  | ["setq", g, et, oa, q, v, nq] =>
    match g.toNat?, parseOptInt? et, parseOptInt? oa, parseOptInt? q, parseInt? v, parseInt? nq with
    | some g, some et, some oa, some q, some v, some nq =>
      let k := width (g != 0)
      let e := setQuantity k (ofStored k (source f et oa) q v) nq
      (f, s!"class={showOptInt e.aaClass} amount={showOptInt e.aaQty} q={showExO (storedQuantity k e)}")
    | _, _, _, _, _, _ => (f, "bad-op")
  | ["retarget", g, et0, oa0, et, oa, c, a, v] =>
    -- effect created as (et0, oa0) with nothing supplied, then type/attribute assigned, then class, amount, variable set
    match g.toNat?, parseOptInt? et0, parseOptInt? oa0, parseOptInt? et, parseOptInt? oa, parseInt? c, parseInt? a, parseInt? v with
    | some g, some et0, some oa0, some et, some oa, some c, some a, some v =>
      let k := width (g != 0)
      let e0 : Eff := { src := source f et0 oa0, quantity := none, aaClass := none, aaQty := none, var := -1 }
      let e := setVar (setAmount (setClass (retarget f e0 et oa) c) a) v
      (f, s!"src={showSrc e.src} q={showExO (storedQuantity k e)} v={showExI (storedVariable k e)}")
    | _, _, _, _, _, _, _, _ => (f, "bad-op")
  | ["seq", g, et0, oa0, ops] =>
    -- effect created as (et0, oa0) with nothing supplied, then any sequence of setter calls:
    -- q<int> quantity, t<et>:<oa> effect_type + object_attributes, c<int> class, a<int> amount, v<int> variable
    match g.toNat?, parseOptInt? et0, parseOptInt? oa0 with
    | some g, some et0, some oa0 =>
      let k := width (g != 0)
      let e0 : Eff := fresh (source f et0 oa0)
      -- the state also remembers the current type and attribute: `T<et>` / `A<oa>` assign only one of them
      let stepOp (acc : Option (Eff × Option Int × Option Int)) (w : String) : Option (Eff × Option Int × Option Int) :=
        acc.bind fun (e, et, oa) =>
          let body := (w.drop 1).toString
          match w.front with
          | 'q' => (parseInt? body).map (fun v => (setQuantity k e v, et, oa))
          | 'c' => (parseInt? body).map (fun v => (setClass e v, et, oa))
          | 'a' => (parseInt? body).map (fun v => (setAmount e v, et, oa))
          | 'v' => (parseInt? body).map (fun v => (setVar e v, et, oa))
          | 'T' => (parseOptInt? body).map (fun et' => (retarget f e et' oa, et', oa))
          | 'A' => (parseOptInt? body).map (fun oa' => (retarget f e et oa', et, oa'))
          | 't' =>
            match body.splitOn ":" with
            | [a, b] => match parseOptInt? a, parseOptInt? b with
              | some et', some oa' => some (retarget f e et' oa', et', oa')
              | _, _ => none
            | _ => none
          | _ => none
      match (ops.splitOn ";").foldl stepOp (some (e0, et0, oa0)) with
      | some (e, _, _) => (f, s!"src={showSrc e.src} q={showExO (storedQuantity k e)} v={showExI (storedVariable k e)}")
      | none => (f, "bad-op")
    | _, _, _ => (f, "bad-op")
  | _ => (f, "bad-op")

def main : IO Unit := loop step { aaEffects := [], partialQ := [], partialV := [], aaAttrs := [] }
