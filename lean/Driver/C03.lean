import Driver.CodecCommon
/-! Driver for C03 (independent reader of saved files); see `Driver/CodecCommon.lean` for commands. -/
open Driver
def step (st : CState) (line : String) : CState × String :=
  match codecStep st (words line) with
  | some r => r
  | none => (st, "bad-op")
def main : IO Unit := loop step {}
