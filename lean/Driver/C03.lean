import Driver.CodecCommon
import Aoe.Model.Players
/-! Driver for C03 (independent reader of saved files); see `Driver/CodecCommon.lean` for commands.
Also the per-player lists of `PlayerManager` (`Aoe.Model.Players`):
  `plist <g> <default> <fill> <v0,...,v8>`  → the list `_player_attributes_to_list` hands to push (`g` = N | T | F)
  `pspread <g> <list>`                      → what players 0..8 receive from a pulled list (`absent` = not in the list) -/
open Driver

def parseG? : String → Option (Option Bool)
  | "N" => some none
  | "T" => some (some true)
  | "F" => some (some false)
  | _ => none

def parseOptList? (s : String) : Option (List (Option Int)) :=
  if s == "-" then some [] else (s.splitOn ",").mapM parseOptInt?

def showOptList (l : List (Option Int)) : String :=
  if l.isEmpty then "-" else ",".intercalate (l.map showOptInt)

def playersStep : List String → Option String
  | ["plist", g, d, fill, vs] =>
    match parseG? g, d.toInt?, fill.toNat?, parseOptList? vs with
    | some g, some d, some fill, some vs =>
      if vs.length = 9 then some (showOptList (Aoe.Players.attrsToList g d fill (fun p => (vs[p]?).getD none))) else some "bad-op"
    | _, _, _, _ => some "bad-op"
  | ["pspread", g, l] =>
    match parseG? g, parseOptList? l with
    | some g, some l =>
      some (" ".intercalate ((List.range 9).map fun p =>
        match Aoe.Players.spread g l p with
        | some v => showOptInt v
        | none => "absent"))
    | _, _ => some "bad-op"
  | _ => none

def step (st : CState) (line : String) : CState × String :=
  match playersStep (words line) with
  | some r => (st, r)
  | none =>
    match codecStep st (words line) with
    | some r => r
    | none => (st, "bad-op")
def main : IO Unit := loop step {}
